"""C11 -- ARP output is a valid ARP cache; probes use the right destination MAC."""
import json
import os
import re
import shutil

import verif

RULE = ("address values of 10 classes (IPv4, IPv4 edges, IPv4-mapped, random IPv6, IPv6 with zero runs of every shape, almost "
        "mapped, nil, odd lengths) through IP.String; address texts of 16 classes (dotted valid / out of range / leading zeros / "
        "malformed, mapped spellings, canonical / expanded / ellipsis / embedded-IPv4 IPv6, zones, corner cases, random) through "
        "ParseIP; MAC texts (colon/dash/dotted, 6/8/20 bytes, wrong lengths, damaged) through ParseMAC; all 256 values of address "
        "and MAC bytes; cache files (lines as printed by the ARP scan, other spellings of the same address, extra / duplicate / "
        "null members, CRLF, unterminated last line, one bad line of 9 kinds at a random position, overlong line) with Get on both "
        "address forms; composition chains ARP frames -> processor -> JSON logger -> FillCache -> cache stage -> tcp/udp/icmp "
        "filler with repeated addresses and gateway present/absent, a third of them with errors logged through the same logger "
        "and two in five with malformed ARP frames mixed in, one reply in five with an odd but valid sender MAC (all-zero, broadcast, "
        "multicast); 9 runs of 2000-4000 requests for distinct hosts through the cache stage "
        "and ONE tcp / udp / icmp filler shared by 2-16 workers of NewPacketMultiGenerator (per frame: Ethernet destination = "
        "resolution of the frame's own IPv4 destination); getGatewayMAC on this host and on a multi-homed host (network "
        "namespace with two uplinks of different metric and a stub interface, caches knowing both / own / other / no gateway); large "
        "cache files as the ARP scan prints them with 65536 / 65537 / a seed-chosen 65538..73537 / 131072 DISTINCT addresses (own MAC "
        "each, one line in 16 in the mapped spelling, repeated lines for edge and random positions) through FillCache, then Get on "
        "both address forms and the cache stage + one filler for the positions 0, 1, 65535, 65536, 65537, last, the repeated ones, "
        "their +-65536 neighbours and 40 random ones plus hosts outside the file, judged by the property on the observation alone "
        "(a probe for X carries the MAC of the LAST line for X, else the gateway MAC, else an error; files of this size are not "
        "sent through the model's vm_compute); non-trivial = accepted text / loaded file with "
        "entries / chain with at least one reply; distinct by generator string")

CODES = {1: "IP.String differs from the model's ip_text", 2: "HardwareAddr.String differs from mac_text",
         3: "ParseIP and parse_ip_text disagree on accepting the text", 4: "ParseIP yields another address than parse_ip_text",
         5: "ParseMAC and parse_mac_text disagree on accepting the text", 6: "ParseMAC yields another MAC than parse_mac_text",
         7: "FillCache outcome (loaded / error class) differs from fill_cache", 8: "a Cache.Get answer differs from the model's cache",
         9: "bytes logged by the ARP scan differ from the model's lines", 10: "the model cannot load what the real loader loaded",
         11: "a request leaves the cache stage differently (error flag or DstMAC)", 12: "getGatewayMAC differs from gateway_mac"}


def packed(hexs):
    return verif.coq_packed(bytes.fromhex(hexs or ""))


def opt_packed(has, hexs):
    return "(Some %s)" % packed(hexs) if has else "None"


def case_term(o):
    t = o["t"]
    if t == "iptext":
        return "KIpText %s %s" % (packed(o.get("in")), packed(o.get("out")))
    if t == "mactext":
        return "KMacText %s %s" % (packed(o.get("in")), packed(o.get("out")))
    if t == "parseip":
        return "KParseIP %s %s %s" % (packed(o.get("in")), verif.coq_bool(o.get("ok", False)), packed(o.get("out")))
    if t == "parsemac":
        return "KParseMAC %s %s %s" % (packed(o.get("in")), verif.coq_bool(o.get("ok", False)), packed(o.get("out")))
    if t == "fill":
        qs = "; ".join("(%s, %s, %s)" % (packed(q["ip"]), verif.coq_bool(q["hit"]), packed(q["mac"])) for q in o.get("queries") or [])
        return "KFill %s %s [%s]" % (packed(o.get("file")), verif.coq_z(o.get("errkind", 0)), qs)
    if t == "chain":
        reps = "; ".join("(%s, %s, %s)" % (packed(r["ip"]), packed(r["mac"]), packed(r["vendor"])) for r in o.get("replies") or [])
        reqs = "; ".join("(%s, %s, %s)" % (packed(q["dst"]), verif.coq_bool(q["err"]), packed(q["dstmac"])) for q in o.get("reqs") or [])
        return "KChain [%s] %s %s [%s]" % (reps, packed(o.get("logged")), opt_packed(o.get("has_gw"), o.get("gw")), reqs)
    if t == "gw":
        return "KGw %s %s %s %s %s %s" % (packed(o.get("file")), opt_packed(o.get("has_flag"), o.get("flag")),
                                          verif.coq_bool(o.get("route_err", False)), packed(o.get("gwip")),
                                          verif.coq_bool(o.get("ok", False)), opt_packed(not o.get("gotnil"), o.get("gotmac")))
    raise verif.Broken("harness emitted an unknown case type %r" % (t,))


CHUNK = 150   # cases per list literal: a single huge literal overflows coqc's stack


def case_file(rows):
    body = ["From Coq Require Import ZArith List Uint63.", "From SX Require Import Base.Bytes Model.Json Model.ArpCache Spec.C11.",
            "Import ListNotations.", "Open Scope Z_scope."]
    names = []
    for k in range(0, len(rows), CHUNK):
        nm = "cases_%d" % (k // CHUNK)
        names.append(nm)
        body.append("Definition %s : list case := [" % nm)
        body.append(";\n".join(case_term(o) for o in rows[k:k + CHUNK]))
        body.append("].")
    body.append("Definition M := Eval vm_compute in check_all 0 (%s)." % " ++ ".join(names or ["[]"]))
    body.append("Definition L := Eval vm_compute in length (%s)." % " ++ ".join(names or ["[]"]))
    body.append("Print M. Print L.")
    return "\n".join(body)


def parse_eval(ctx, out, nrows):
    m = ctx.parse_result(out, "M")
    n_model = int(ctx.parse_result(out, "L"))
    if n_model != nrows:
        raise verif.Broken("case count differs between harness and model (%d vs %d)" % (nrows, n_model))
    res = []
    if m.strip() not in ("[]", "nil"):
        for idx, codes in re.findall(r"\((\d+), \[([^\]]*)\]\)", m):
            res.append((int(idx), [int(c.strip().strip("()")) for c in codes.split(";") if c.strip()]))
        if not res:
            raise verif.Broken("cannot parse mismatch list", m[:500])
    return res


def txt(h, n=300):
    return bytes.fromhex(h or "")[:n].decode("utf-8", "backslashreplace")


def describe(o):
    d = {"type": o["t"], "class": o.get("class"), "generator": o["gen"]}
    t = o["t"]
    if t in ("iptext", "mactext"):
        d["bytes_hex"], d["text"] = o.get("in", ""), txt(o.get("out"))
    elif t in ("parseip", "parsemac"):
        d["text"], d["accepted"], d["value_hex"] = txt(o.get("in")), o.get("ok", False), o.get("out", "")
    elif t == "fill":
        d["file"], d["error_class"] = txt(o.get("file"), 700), o.get("errkind", 0)
        d["get"] = [(q["ip"], q["mac"]) for q in (o.get("queries") or [])[:6]]
    elif t == "chain":
        d["replies"] = [(r["ip"], r["mac"], txt(r["vendor"], 40)) for r in o.get("replies") or []]
        d["logged"] = txt(o.get("logged"), 500)
        d["gateway_mac"] = o.get("gw") if o.get("has_gw") else None
        d["requests"] = [(q["dst"], "error" if q["err"] else q["dstmac"], q.get("filler"), q.get("ethdst")) for q in o.get("reqs") or []]
    elif t == "gw":
        d.update({k: o.get(k) for k in ("flag", "has_flag", "gwip", "route_err", "gotmac", "gotnil", "ok")})
    elif t == "big":
        d["lines"], d["distinct_addresses"], d["file_construction_and_excerpt"] = o.get("lines"), o.get("distinct"), o.get("excerpt")
        d["gateway_mac"] = o.get("gw") if o.get("has_gw") else None
        d["get"] = [(q["ip"], q["mac"]) for q in (o.get("queries") or [])[:24]]
        d["requests"] = [(q["dst"], "error" if q["err"] else q["dstmac"], q.get("filler"), q.get("ethdst")) for q in (o.get("reqs") or [])[:16]]
        d["judge"] = "property on the observation alone (file too large for the model's vm_compute)"
    return d


def key_of(o):
    return "%s:%s" % (o["t"], o.get("class", ""))


def report(ctx, o, why):
    k = key_of(o)
    if any(f["key"] == k for f in ctx.findings) or len(ctx.findings) >= 8:
        ctx.more_findings = getattr(ctx, "more_findings", 0) + 1
        return
    tag = re.sub(r"\W+", "-", o["gen"])[:60]
    path = ctx.write_replay(tag, {"property": "C11", "what": why, "input": {"gen": o["gen"]}, "observed": describe(o),
                                  "replay_cmd": "bin/check C11 --replay <this file>"})
    ctx.findings.append({"key": k, "what": why, "replay": path})


def run_harness(ctx, exe, name, args, timeout=1500):
    ok, _ = ctx.harness_run(exe, ["-out", name] + [str(a) for a in args], timeout=timeout)
    return ctx.read_jsonl(os.path.join(ctx.work, name)) if ok else []


def build_race(ctx):
    """thorough tier: the same driver built with the race detector (64 concurrent readers of the loaded cache)."""
    hdir = os.path.join(verif.ROOT, "harness")
    cmd = ["go", "build", "-race", "-tags", "verif"]
    if verif.REPO != "/repo":
        alt = os.path.join(hdir, "go.%s.mod" % re.sub(r"\W", "_", verif.REPO))
        if os.path.exists(alt):
            cmd += ["-modfile", alt]
    rc, out = verif.sh(cmd + ["-o", os.path.join(verif.HBIN, "c11race"), "./cmd/c11"], env=verif.GOENV, cwd=hdir, timeout=1800)
    if rc != 0:
        ctx.skipped.append("race-detector build of the driver failed: " + out[-300:])
        return False
    return True


def run(ctx):
    quick = ctx.tier == "quick"
    ctx.trusted += [
        "net.IP.String, net.HardwareAddr.String, net.ParseIP (netip.ParseAddr), net.ParseMAC, bufio.Scanner line splitting and the "
        "generated easyjson decoder of arp.ScanResult are modelled, not verified: tied by the differential check (valid-JSON "
        "lines only: jlexer is more lenient than the model's strict decoder on malformed JSON)",
        "gopacket's ARP decoder and macs vendor table: the vendor string is whatever the processor attached (any string in the theorems)",
        "the cache is read-only after loading (sync.RWMutex not modelled); race freedom of concurrent readers is runtime evidence "
        "from the race-detector build in the thorough tier",
        "command/verif_export_c11.go accessor for getGatewayMAC (build tag verif); the kernel routing table is an oracle input"]
    ctx.assumptions += ["ARP replies carry hardware size 6 and protocol size 4 (C06 concerns other sizes)",
                        "requests entering the cache stage carry no error and a 4- or 16-byte IPv4 destination (C13 concerns error requests)"]
    gen_ok = ctx.gen()
    model_ok = gen_ok and ctx.coq_model(["Spec/C11.vo"])
    proof_ok = gen_ok and ctx.coq_proofs("Properties/C11.v")
    rows = []
    if ctx.harness_build("c11"):
        if quick:
            args = ["-seed", ctx.seed, "-n", 1000, "-fill", 600, "-text", 500, "-race", 2]
        else:
            args = ["-seed", ctx.seed, "-n", 10000, "-fill", 6000, "-text", 5000, "-sweep", "-race", 20]
        rows = run_harness(ctx, "c11", "cases.jsonl", args, timeout=3000)
        if not quick and build_race(ctx):
            more = run_harness(ctx, "c11race", "race.jsonl", ["-seed", ctx.seed + 5, "-n", 300, "-fill", 100, "-text", 10, "-race", 40],
                               timeout=3000)
            rows += [o for o in more if o["t"] in ("race", "chain")]
            ctx.info.append("race-detector build: %d concurrent-reader runs and chains without a report" %
                            sum(1 for o in more if o["t"] in ("race", "chain")))
    skipped = [o for o in rows if o["t"] == "skip"]
    rows = [o for o in rows if o["t"] != "skip"]
    if skipped:
        ctx.skipped.append("%d getGatewayMAC cases skipped: %s" % (len(skipped), skipped[0].get("class")))
    for o in rows:
        ctx.count(key_of(o) if o["t"] not in ("fill",) else "fill", o["gen"], nontrivial=bool(o.get("nontrivial")),
                  sample=describe(o) if o["t"] in ("chain", "fill", "big") else None)
        if o.get("spec"):
            report(ctx, o, o["spec"])
    model_rows = [o for o in rows if o["t"] not in ("race", "mux", "big")]   # judged on the implementation alone
    if model_ok and model_rows:
        nshards = 16 if quick else 64
        parts = [model_rows[i::nshards] for i in range(nshards)] if len(model_rows) >= nshards else [model_rows]
        parts = [p for p in parts if p]
        outs = ctx.coq_eval_many([("cases_%d" % i, case_file(p)) for i, p in enumerate(parts)], timeout=3000)
        nbad = 0
        for part, out in zip(parts, outs):
            for idx, codes in parse_eval(ctx, out, len(part)):
                o = part[idx]
                nbad += 1
                if nbad <= 8:
                    ctx.broken.append(("correspondence: %s: %s" % (o["gen"], "; ".join(CODES.get(c, str(c)) for c in codes)),
                                       json.dumps(describe(o))[:900]))
                elif nbad == 9:
                    ctx.broken.append(("correspondence: further cases disagree with the model", ""))
            ctx.cov["traces_validated_against_impl"] += len(part)
    if ctx.broken and not ctx.findings and os.path.exists(os.path.join(verif.HBIN, "c11")):
        more = run_harness(ctx, "c11", "search.jsonl", ["-seed", ctx.seed + 1000, "-n", 20000, "-fill", 20000, "-text", 5000, "-sweep"],
                           timeout=3000)
        for o in more:
            if o.get("spec"):
                report(ctx, o, o["spec"])
    nbig = [o for o in rows if o["t"] == "big"]
    if nbig:
        ctx.info.append("large-cache stage: %d files (%s lines; up to %d distinct addresses) loaded by the real FillCache, %d Get answers and "
                        "%d requests through the cache stage judged by the property on the observation alone - not evaluated by the "
                        "Coq model (file size); C11_last_wins / C11_never_other_host state it for files of any length" %
                        (len(nbig), ", ".join(str(o.get("lines")) for o in nbig), max(o.get("distinct", 0) for o in nbig),
                         sum(len(o.get("queries") or []) for o in nbig), sum(len(o.get("reqs") or []) for o in nbig)))
    if getattr(ctx, "more_findings", 0):
        ctx.info.append("%d further failing inputs of already reported classes were not written out" % ctx.more_findings)
    return ctx.finish(rule=RULE)


def replay(ctx, path):
    r = json.load(open(path))
    if "input" not in r:
        print(json.dumps(r, indent=1))
        return 1
    if not ctx.harness_build("c11"):
        return 1
    ok, _ = ctx.harness_run("c11", ["-out", "one.jsonl", "-replay", r["input"]["gen"]], timeout=600)
    if not ok:
        return 1
    o = ctx.read_jsonl(os.path.join(ctx.work, "one.jsonl"))[0]
    print(json.dumps(describe(o), indent=1))
    print("replay %s: %s" % (r["input"]["gen"], o.get("spec") or "property holds on this input"))
    return 1 if o.get("spec") else 0


MANIFEST = {
    "technique": "Coq proof (text round trips of addresses by 256-value sweeps and per-digit-count lemmas, the JSON line via the "
                 "C14 round trip, induction over all cache files and request streams) + translated ARP schema + differential "
                 "correspondence incl. the composition ARP frames -> processor -> logger -> loader -> cache stage -> fillers",
    "level_text": "Theorems C11_line_loads / C11_last_wins / C11_dst_mac / C11_never_other_host / C11_ip_text_roundtrip / "
                  "C11_mac_text_roundtrip hold for all 4-byte addresses, 6-byte MACs, vendor strings, cache files and request "
                  "streams; the model equals the real String/Parse functions, FillCache + Get, the cache stage and getGatewayMAC on "
                  "generated cases, and the composed real pipeline puts the modelled MAC into the Ethernet header.",
    "level_note": "Trusted: Coq kernel + VM, harness comparison. net.ParseIP/ParseMAC/IP.String, bufio.Scanner and the easyjson "
                  "decoder are modelled and tied differentially (valid JSON lines only). IPv6 text forms are modelled but only "
                  "IPv4 destinations are covered by the never-another-host theorem. Concurrent readers: the cache is modelled "
                  "read-only; race freedom is runtime evidence (race-detector build, thorough tier). No axioms.",
    "design_ref": "DESIGN.md section 5 (C11)",
}
