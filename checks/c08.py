"""C08 -- application scans: each target probed once, each outcome reported once."""
import json
import os
import re

import verif

RULE = ("complete runs of the real GenericEngine + ResultChan + JSON logger under the real startScanEngine (default exit "
        "delay 300 ms), W in {1,2,7,100,1000} workers, 0..3000 scripted requests with positive/negative/failing probes and "
        "request errors incl. more results than the 1000-slot and more errors than the 100-slot buffers; non-trivial = at "
        "least 5 requests; distinct by (W, cap, request script)")


def spec_on_impl(o):
    if o["panic"]:
        return "panic: " + o["panic"]
    if not o["returned"]:
        return "startScanEngine did not return within 20 s of the exit delay"
    reqs = o["reqs"] or []
    good = sorted(r["id"] for r in reqs if not r["bad"])
    pos = sorted(r["id"] for r in reqs if not r["bad"] and r["out"] == "pos")
    errs = sorted(["req:%d" % r["id"] for r in reqs if r["bad"]] +
                  ["scan:%d" % r["id"] for r in reqs if not r["bad"] and r["out"] == "fail"])
    scans = o["scans"] or []
    if scans != good:
        dup = sorted(x for x in set(scans) if scans.count(x) > 1)
        miss = sorted(set(good) - set(scans))
        extra = sorted(set(scans) - set(good))
        return "targets probed differ from targets generated: duplicated %s missing %s extra %s" % (dup[:5], miss[:5], extra[:5])
    if not o["done_seen"] or o["finished_at_done"] != len(good):
        return "completion signalled when %d of %d probes had finished" % (o["finished_at_done"], len(good))
    printed = sorted(o["printed"] or [])
    if o["bad_lines"]:
        return "%d output lines are not complete records" % o["bad_lines"]
    if printed != pos:
        miss = sorted(set(pos) - set(printed))
        dup = sorted(x for x in set(printed) if printed.count(x) > 1)
        return "records printed differ from services detected (with the default exit delay): missing %s duplicated %s " \
               "extra %s" % (miss[:5], dup[:5], sorted(set(printed) - set(pos))[:5])
    if sorted(o["errs"] or []) != errs:
        ge = o["errs"] or []
        return "error records differ from failed probes: missing %s extra/duplicated %s" % (
            sorted(set(errs) - set(ge))[:5], sorted(set(ge) - set(errs))[:5])
    return None


def case_term(o):
    reqs = o["reqs"] or []
    code = {"pos": 0, "neg": 1, "fail": 2}
    return "{| cW := %d; ccap := %d; creqs := [%s]; couts := [%s]; cscans := [%s]; cprinted := [%s]; cerrs := [%s] |}" % (
        o["w"], o["cap"], "; ".join("(%d, %s)" % (r["id"], verif.coq_bool(r["bad"])) for r in reqs),
        "; ".join(str(code[r["out"]]) for r in reqs), "; ".join(map(str, o["scans"] or [])),
        "; ".join(map(str, sorted(o["printed"] or []))),
        "; ".join(str(x) for x in sorted(int(e.split(":")[1]) for e in (o["errs"] or []))))


def case_file(rows):
    return "\n".join([
        "From stdpp Require Import list.", "From SX Require Import Spec.C08.",
        "Definition cases : list case := [", ";\n".join(case_term(o) for o in rows), "].",
        "Definition M := Eval vm_compute in check_all 0 cases.",
        "Definition L := Eval vm_compute in length cases.", "Print M. Print L."])


CODES = {1: "Scan calls differ from the model's terminal state", 2: "printed results differ from the model's",
         3: "logged errors differ from the model's", 4: "(harness) model schedule too short",
         5: "the model run panicked or was cancelled"}


def report(ctx, o, why):
    small = {k: v for k, v in o.items() if k not in ("scans", "printed", "errs")}
    path = ctx.write_replay("case%d" % o["case"], {"property": "C08", "what": why, "input": {
        "w": o["w"], "cap": o["cap"], "reqs": o["reqs"], "cancel_at": o["cancel_at"], "delay_ms": o["delay_ms"]},
        "observed": small})
    ctx.findings.append({"key": "engine:" + why.split(":")[0][:40], "what": why, "replay": path})


def run_harness(ctx, n, seed, name="cases.jsonl", maxreq=3000, env=None):
    args = ["-seed", seed, "-n", n, "-cancel", 0, "-maxreq", maxreq]
    ok, _ = ctx.harness_run("c08", ["-out", name] + args, timeout=900, env=env)
    if not ok:
        from checks import c07
        c07.crash_finding(ctx, "c08", args, n + 2, env, prop="C08", key="engine:crash")
    return ctx.read_jsonl(os.path.join(ctx.work, name)) if ok else []


def run_e2e(ctx):
    """the real socks / elastic / docker commands against loopback services (also used by C13 for the error records)"""
    sx = os.path.join(ctx.work, "sx")
    rc, out = verif.sh(["go", "build", "-o", sx, "."], env=verif.GOENV, cwd=verif.REPO, timeout=900)
    if rc != 0:
        ctx.broken.append(("correspondence: the sx binary does not build", out[-1500:]))
        return []
    ok, _ = ctx.harness_run("c08", ["-e2e", sx, "-out", "e2e.jsonl"], timeout=300)
    return ctx.read_jsonl(os.path.join(ctx.work, "e2e.jsonl")) if ok else []


def run(ctx):
    quick = ctx.tier == "quick"
    ctx.trusted += ["Base/Net.v is the assumed semantics of Go channels, select, close, WaitGroup and context cancellation",
                    "goroutine bodies are modelled by hand (Model/AppEngine.v); their source shape is pinned by "
                    "Model/AppEngineShape.v against Gen/Skeletons.v",
                    "'printed before the program exits' is proved under the explicit hypothesis that the result queues "
                    "are drained when the context is cancelled; that this happens within the default exit delay is "
                    "measured on the real code, not proved"]
    gen_ok = ctx.gen()
    model_ok = gen_ok and ctx.coq_model(["Spec/C08.vo"])
    ctx.coq_proofs("Properties/C08.v") if gen_ok else None
    rows = []
    if ctx.harness_build("c08"):
        rows = run_harness(ctx, 30 if quick else 300, ctx.seed)
        rows += run_harness(ctx, 50 if quick else 500, ctx.seed + 17, name="cases_small.jsonl", maxreq=100)
        for i, o in enumerate(rows):
            o["case"] = i
    for o in rows:
        reqs = o["reqs"] or []
        ctx.count(o["class"], (o["w"], o["cap"], json.dumps(reqs)), nontrivial=len(reqs) >= 5,
                  sample={"W": o["w"], "cap": o["cap"], "requests": len(reqs), "class": o["class"],
                          "scans": len(o["scans"] or []), "printed": len(o["printed"] or []),
                          "errors": len(o["errs"] or []), "elapsed_ms": o["elapsed_ms"], "first_requests": reqs[:4]})
        why = spec_on_impl(o)
        if why:
            report(ctx, o, why)
    if rows:
        # the engines as the commands build them (real option parsing + newScanEngine) incl. rates below 1/s
        ok, _ = ctx.harness_run("c08", ["-wired", "-out", "wired.jsonl"], timeout=300)
        for o in (ctx.read_jsonl(os.path.join(ctx.work, "wired.jsonl")) if ok else []):
            ctx.count("wired", ("wired", o["rate"], o["workers"]), nontrivial=True,
                      sample={"rate": o["rate"], "workers": o["workers"], "ms": o["ms"], "calls": o["calls"]})
            calls = o["calls"] or {}
            why = None
            if o["err"]:
                why = "engine construction fails: " + o["err"]
            elif sorted(calls.items()) != sorted((t, 1) for t in o["targets"]):
                why = "targets probed %s, due: each of %s once" % (sorted(calls.items()), o["targets"])
            elif not o["done"]:
                why = "completion is not signalled within %d ms" % o["bound_ms"]
            if why:
                why = "sx socks/docker/elastic --workers %d --rate '%s' over 127.0.0.0/31 port 80: %s" % (o["workers"], o["rate"], why)
                path = ctx.write_replay("wired-%d-%s" % (o["workers"], (o["rate"] or "none").replace("/", "per")),
                                        {"property": "C08", "what": why, "input": {"workers": o["workers"], "rate": o["rate"]}, "observed": o})
                ctx.findings.append({"key": "wired:" + o["rate"], "what": why, "replay": path})
    if rows:
        # the real socks / elastic / docker commands end to end against loopback services, one target listed twice
        if True:
            for o in run_e2e(ctx):
                want = {}
                for t in o["targets"]:
                    want[t] = want.get(t, 0) + 1
                ctx.count("e2e", ("e2e", o["cmd"]), nontrivial=True,
                          sample={"cmd": o["cmd"], "probes": o["probes"], "records": o["records"], "ms": o["ms"]})
                why = None
                if o["exit"] != 0:
                    why = "exit status %d (%s)" % (o["exit"], o["stderr"][:200])
                elif o["bad_line"]:
                    why = "an output line is not a complete record: %r" % o["bad_line"][:120]
                elif o["probes"] != want:
                    why = "targets probed %s, the file lists %s" % (o["probes"], want)
                elif o.get("bad_entries") and o["err_records"] != o["bad_entries"]:
                    why = "%d entries of the target file cannot become a probe but %d error records are written to stderr " \
                          "(each failed request yields exactly one error record)" % (o["bad_entries"], o["err_records"])
                elif o["records"] != want:
                    why = "%d probes detected a service but the records printed are %s (one target is listed twice: every " \
                          "probe yields its own record)" % (sum(want.values()), o["records"])
                if why:
                    why = "sx %s --json -f <3 ip/port pairs, one listed twice%s> -w 1: %s" % (
                        o["cmd"], ", then %d entries with an invalid address" % o["bad_entries"] if o.get("bad_entries") else "", why)
                    path = ctx.write_replay("e2e-" + o["cmd"] + ("-bad" if o.get("bad_entries") else ""), {"property": "C08", "what": why, "input": {"args": o["args"], "targets": o["targets"]}, "observed": o})
                    ctx.findings.append({"key": "e2e:" + o["cmd"] + (":bad-entries" if o.get("bad_entries") else ""), "what": why, "replay": path})
    if rows and os.path.exists(os.path.join(ctx.work, "sx")):
        # failing and negative probes end to end: a good service, a closed port, a peer that never answers and (socks) a
        # peer that refuses every method -- one record per detecting probe, one error record per failed probe, none
        # for a negative probe, no crash
        ok, _ = ctx.harness_run("c08", ["-e2efault", os.path.join(ctx.work, "sx"), "-out", "e2efault.jsonl"], timeout=300)
        for o in (ctx.read_jsonl(os.path.join(ctx.work, "e2efault.jsonl")) if ok else []):
            roles = o["roles"]
            if len(roles) < 3:
                ctx.skipped.append("e2e fault run of %s: listeners could not be set up" % o["cmd"])
                continue
            ctx.count("e2e-fault", ("e2e-fault", o["cmd"]), nontrivial=True,
                      sample={"cmd": o["cmd"], "roles": sorted(roles.values()), "records": o["records"], "error_records": o["err_records"], "ms": o["ms"]})
            good = [t for t, r in roles.items() if r == "good"]
            failing = [t for t, r in roles.items() if r in ("closed", "silent")]
            why = None
            if o["panic"]:
                why = "the process crashes: %s" % o["panic"]
            elif o["exit"] != 0:
                why = "exit status %d (%s)" % (o["exit"], o["stderr"][:200])
            elif o["records"] != {t: 1 for t in good}:
                why = "the records printed are %s; only %s detected the service" % (o["records"], good)
            elif o["err_records"] != len(failing) or any(o["err_for"].get(t, 0) != 1 for t in failing):
                why = "%d probes fail (%s) but %d error records are written, per target %s (each failed probe yields exactly one error record)" % (
                    len(failing), ", ".join("%s: %s" % (t, roles[t]) for t in failing), o["err_records"], o["err_for"])
            if why:
                why = "sx %s --json -f <pairs: %s> -w 2 -t 500ms: %s" % (o["cmd"], ", ".join("%s = %s" % (t, r) for t, r in sorted(roles.items())), why)
                path = ctx.write_replay("e2e-fault-" + o["cmd"], {"property": "C08", "what": why, "input": {"args": o["args"], "roles": roles}, "observed": o})
                ctx.findings.append({"key": "e2e-fault:" + o["cmd"], "what": why, "replay": path})
    if model_ok and rows:
        small = [o for o in rows if len(o["reqs"] or []) <= 120 and o["w"] <= 16 and not o["panic"] and o["returned"]]
        small = small[:48 if quick else 400]
        size = max(1, (len(small) + 15) // 16)
        parts = [small[i:i + size] for i in range(0, len(small), size)]
        outs = ctx.coq_eval_many([("cases_%d" % i, case_file(p)) for i, p in enumerate(parts)])
        for part, out in zip(parts, outs):
            m = ctx.parse_result(out, "M")
            if int(ctx.parse_result(out, "L")) != len(part):
                raise verif.Broken("case count differs between harness and model")
            if m.strip() not in ("[]", "nil"):
                for idx, codes in re.findall(r"\((\d+), \[([^\]]*)\]\)", m):
                    o = part[int(idx)]
                    cs = [int(c) for c in codes.split(";") if c.strip()]
                    ctx.broken.append(("correspondence: case %d (W=%d, %d requests): %s" % (
                        o["case"], o["w"], len(o["reqs"] or []), "; ".join(CODES.get(c, str(c)) for c in cs)), ""))
            ctx.cov["traces_validated_against_impl"] += len(part)
        ctx.info.append("%d runs compared with the model's terminal state inside Coq (<= 120 requests, <= 16 workers); "
                        "all %d runs judged by the property on the implementation's observation" % (len(small), len(rows)))
    if not quick:
        ctx.harness_race_run("c08", ["-out", "race.jsonl", "-seed", ctx.seed + 5, "-n", 40, "-cancel", 150, "-maxreq", 1500], "in the engine under load")
    if ctx.broken and not ctx.findings and os.path.exists(os.path.join(verif.HBIN, "c08")):
        for gmp, n in (("1", 60), ("2", 60), ("16", 120)):
            for o in run_harness(ctx, n, ctx.seed + 100 + int(gmp), name="search_g%s.jsonl" % gmp, env={"GOMAXPROCS": gmp}):
                why = spec_on_impl(o)
                if why:
                    report(ctx, o, why)
            if ctx.findings:
                break
    return ctx.finish(rule=RULE)


def replay(ctx, path):
    r = json.load(open(path))
    print(json.dumps({k: v for k, v in r.items() if k != "input"}, indent=1)[:3000])
    print("replay: the input script is in the file; schedule-dependent failures need the stress run (`bin/check C08`)")
    return 1


MANIFEST = {
    "technique": "Coq proof over an interleaving semantics of goroutine networks (two conservation laws, channel typing by "
                 "fate, ownership discipline, closed-and-drained chain), all W and all schedules; pinned source skeletons + "
                 "differential runs of the real engine under the real startScanEngine",
    "level_text": "C08_conservation, C08_probe_at_most_once, C08_probe_once, C08_fates, C08_printed_if_drained, "
                  "C08_scans_exact, C08_errors_once, C08_no_panic hold for every worker count, request stream, Scan outcome and schedule of "
                  "the modelled network; C08_shape ties the behaviours to the goroutine structure of the current sources; "
                  "complete runs of the real code are compared with the model's terminal state and judged by the property.",
    "level_note": "Partial: 'printed before the program exits' needs real time -- proved under the hypothesis that the "
                  "queues are drained at cancellation, measured with the default exit delay on the real code. Trusted: "
                  "Coq kernel+VM, Net.v as the semantics of Go channels, skeleton extraction, harness mocks.",
    "design_ref": "DESIGN.md section 5 (C08), section 3 layer C",
}
