"""C09 -- SOCKS5 probe: reported iff the server answers 05 00; always time-bounded."""
import json
import os
import re

import verif

RULE = ("scripted loopback TCP peers against the real socks5.Scanner.Scan with 80-160 ms timeouts: every two-byte reply "
        "05 xx and xx 00 plus a seeded sample of the others (thorough: all 65536), each delivered whole / split with a "
        "pause / followed by extra bytes or segments, peer reading the greeting first or not; fault scripts: refused, "
        "never accepted (full accept queue), rejected address, accept+stall, one byte+stall, one byte+close, close after "
        "/ without reading, reset, one byte+reset, flood, late first/second byte, slow-but-in-time, a complete reply followed by a one-byte-per-quarter-"
        "timeout trickle or an endless flood, cancellation before / "
        "during dial / during read / between reads / after the end, dial timeout 0, data timeout <= 0, negative dial "
        "timeout; Scanner-reuse cases (always, 32; thorough 320): the measured Scan is NOT the Scanner's first -- the same "
        "Scanner first completes 1-3 Scans under other contexts (left live or cancelled afterwards), then a Scan under a "
        "fresh context of its own is cancelled during the read / between the reads / during the dial / before the call, or "
        "meets a stalling or a 05 00 peer, judged like every other Scan (returns promptly after ITS context is cancelled, "
        "time bound, reported iff 05 00); a concurrent stage: ONE Scanner shared by 64 goroutines (as the scan engine shares it) against 12 peers with "
        "different answers, 30000 probes each judged on its own (thorough: 400000, a -race build, and a 1200-attempt "
        "cancel-right-after-connect race sweep); end-to-end runs of the sx binary; "
        "non-trivial = the connection was established; distinct by (class, reply bytes, script shape)")

SLACK_MS = 60          # scheduling slack granted to a duration (the machine is shared)
LOW_JITTER_MS = 10     # a run whose 5 ms sleeps never overshot by more than this is a quiet window: its durations count
EXTRA_SLACK = [0]      # set by settle() to ask "does the duration exceed the model by MUCH more than the slack?"


def load_ms(o):
    """how starved of CPU the harness process was while the case ran, in milliseconds of scheduling delay: the larger of
    jitter_ms (largest overshoot of a goroutine sleeping 5 ms: wake-up latency) and 20 ms per unit of cpu_slowdown - 1
    (wall / CPU time of a thread burning 2 ms of CPU: the scheduler serves sleepers promptly even when CPU-bound work --
    TLS, JSON, 2 MB bodies -- crawls, so wake-up latency alone underestimates starvation).  ~0-3 on a quiet machine."""
    return max(o.get("jitter_ms") or 0, min(200.0, 20.0 * max(0.0, (o.get("cpu_slowdown") or 1.0) - 1.0)))


def jitter_slack(o):
    """the harness measures, while each case runs, by how much a goroutine sleeping 5 ms overshoots (jitter_ms); a probe
    has a handful of such wake-ups (timer, netpoll, result hand-over), so the duration comparison with the MODEL grants
    three of them on top of the fixed slack -- nothing on a quiet machine, the starvation delay on a loaded one.  The
    property's own bound keeps its fixed slack."""
    return int(3 * min(o.get("jitter_ms") or 0, 300))
CODES = {1: "outcome class differs from the model", 2: "the peer received other bytes than the model's greeting",
         3: "the record's address/port/version differ", 4: "Scan took longer than the model's logical duration + slack",
         105: "(info) Scan returned earlier than the model's logical duration"}
OBS = {0: "report", 1: "nothing", 2: "dial-timeout", 3: "dial-refused", 4: "dial-error", 5: "linger-error", 6: "io-timeout",
       7: "EOF", 8: "unexpected-EOF", 9: "reset", 10: "cancelled", 11: "HANG", 12: "out-of-fuel",
       13: "typed-nil-result (err == nil, result != nil as an interface but a nil pointer inside)", 14: "CRASH of the sx process",
       98: "harness-error",
       99: "unclassified-error"}


# ---------------------------------------------------------------- the property on the implementation alone
def sent_stream(o):
    """bytes the scripted peer sends, in order, up to the first close/reset (None if it never accepts)"""
    if o["mode"] != "accept":
        return None
    out = []
    for a in o["actions"] or []:
        if a["kind"] == "trickle":      # one byte per period, for ever
            out += [(a.get("data") or [0x2e])[0]] * 4
            break
        if a["kind"] == "stream":       # endless flood
            out += [0x41] * 4
            break
        if a["kind"] != "send":
            break
        out += a.get("data") or []
    return out


def comfortably_in_time(o):
    """the peer delivers its first two bytes well inside every deadline and nothing interferes"""
    if o["mode"] != "accept" or o["tdial"] <= 0 or o["tdata"] < 30:
        return False
    if o["cancel"] != -1 and o["cancel"] < 250:
        return False
    n = 0
    for a in o["actions"] or []:
        if a["kind"] != "send" or a["delay"] > o["tdata"] * 0.6:
            return False
        n += len(a.get("data") or [])
        if n >= 2:
            return True
    return False


def time_bound(o):
    if o["cancel"] >= 0 and o["cancel"] < 250:
        return o["cancel"]
    if o["tdial"] == 0:
        return None
    return max(0, o["tdial"]) + 3 * max(0, o["tdata"])


def spec_e2e(o):
    """the property on one run of the command line (`sx socks -p PORT IP/32 --json -t T`)"""
    obs, st = o["obs"], sent_stream(o)
    if obs == 0:
        if st is None or st[:2] != [5, 0]:
            return "sx socks printed a record although the peer did not answer 05 00"
        r = o["rec"] or {}
        if r.get("ip") != o["ip"] or r.get("port") != o["port"] or r.get("version") != 5 or r.get("scan") != "socks":
            return "sx socks printed %s for the probed %s:%s" % (r, o["ip"], o["port"])
    elif obs == 14:
        return "%s -- against a peer whose reply starts with %s; no record may be printed for it and the scan must go on" % (
            o["err"], " ".join("%02x" % b for b in (st or [])[:2]) or "nothing")
    elif obs == 11:
        return "sx socks did not exit (%s)" % o["err"]
    elif st is not None and st[:2] == [5, 0]:
        return "sx socks printed no record (%s) although the peer answered 05 00 in time" % (o["err"] or o.get("stderr", ""))[-200:]
    # --timeout is both the connect and the data timeout; process start-up and exit delay are granted 600 ms
    if o["dur_ms"] > 4 * o["tdata"] + 600:
        return "sx socks -t %dms took %.0f ms against a %s peer" % (o["tdata"], o["dur_ms"], o["class"])
    return None


def spec_on_impl(o):
    if o.get("e2e"):
        return spec_e2e(o)
    obs = o["obs"]
    if obs >= 98:
        return None  # harness trouble is reported as a broken tie, not as a property failure
    st = sent_stream(o)
    if obs == 13:
        return ("Scan returned err == nil and a scan.Result that is != nil AS AN INTERFACE (it holds a nil pointer) for a peer "
                "whose reply starts with %s: the scan engine's `result != nil` emits it as a record although the reply is not "
                "05 00%s" % (" ".join("%02x" % b for b in (st or [])[:2]),
                            ", and printing it panics (%s)" % o["print_panic"] if o.get("print_panic") else ""))
    if obs == 0 and o.get("print_panic"):
        return "printing the record of this probe panics: %s" % o["print_panic"]
    if obs == 0:
        if st is None:
            return "an endpoint that never accepted the connection is reported"
        if st[:2] != [5, 0]:
            return "reported although the peer's reply starts with %s, not 05 00" % " ".join("%02x" % b for b in st[:2])
        r = o["rec"] or {}
        if r.get("ip") != o["ip"] or r.get("port") != o["port"]:
            return "the record says %s:%s but %s:%s was probed" % (r.get("ip"), r.get("port"), o["ip"], o["port"])
        if r.get("version") != 5 or r.get("scan") != "socks":
            return "the record carries version %s / scan type %s" % (r.get("version"), r.get("scan"))
    elif st is not None and st[:2] == [5, 0] and comfortably_in_time(o):
        return "not reported (%s) although the peer answered 05 00 in time" % OBS.get(obs, obs)
    if obs == 11 and o["cancel"] > 0:
        return ("Scan did not return after its context was cancelled at %d ms (%s; it came back or was given up after %.0f ms, "
                "data timeout %d ms)" % (o["cancel"], o["err"], o["dur_ms"], o["tdata"]))
    if obs == 11:
        return "Scan did not return (%s)" % o["err"]
    b = time_bound(o)
    if b is not None and o["dur_ms"] > b + SLACK_MS:
        return "Scan took %.0f ms, more than the bound of %d ms (+%d ms slack)" % (o["dur_ms"], b, SLACK_MS)
    if o["greet"] and o["greet"][:3] != [5, 1, 0] and obs in (0, 1, 6, 7, 8):
        return "the peer received %s instead of the greeting 05 01 00" % o["greet"]
    return None


# ---------------------------------------------------------------- model side
def ip_bytes(s):
    try:
        parts = [int(x) for x in s.split(".")]
        if len(parts) == 4 and all(0 <= p < 256 for p in parts):
            return parts
    except ValueError:
        pass
    return []


def script_term(o):
    z = verif.coq_z
    dial = {"accept": "After 0 DConnected", "refuse": "After 0 DRefused", "blackhole": "Never",
            "badaddr": "After 0 DOtherErr"}[o["mode"]]
    evs = []
    for a in o["actions"] or []:
        if a["kind"] == "send":
            data = (a.get("data") or []) + [0x41] * min(a.get("flood", 0), 4)
            if not data:
                continue
            evs.append("(%s, RData %s %s)" % (z(a["delay"]), z(data[0]), verif.coq_bytes(data[1:8])))
        elif a["kind"] == "trickle":
            # one byte every a["delay"] ms for ever; the probe reads at most two bytes, six events are plenty
            evs += ["(%s, RData %s [])" % (z(a["delay"]), z((a.get("data") or [0x2e])[0]))] * 6
            break
        elif a["kind"] == "stream":
            evs.append("(%s, RData 65 [65;65;65;65;65;65;65])" % z(a["delay"]))
            break
        elif a["kind"] == "close":
            # closing a socket whose receive queue still holds the unread greeting makes Linux send a reset
            evs.append("(%s, %s)" % (z(a["delay"]), "REOF" if o["read_first"] else "RReset"))
            break
        else:
            evs.append("(%s, RReset)" % z(a["delay"]))
            break
    return "{| s_dial := %s; s_linger := true; s_write := After 0 WOk; s_reads := %s |}" % (dial, verif.coq_list(evs))


def case_term(o):
    z = verif.coq_z
    rec = "None"
    if o["rec"]:
        rec = "Some (%s, %s, %s)" % (verif.coq_bytes(ip_bytes(o["rec"]["ip"])), z(o["rec"]["port"]), z(o["rec"]["version"]))
    greet = "None" if o["greet"] is None else "Some %s" % verif.coq_bytes(o["greet"][:3])
    return ("{| c_tdial := %s; c_tdata := %s; c_cancel := %s; c_ip := %s; c_port := %s; c_script := %s; c_obs := %s; "
            "c_dur := %s; c_slack := %d; c_greet := %s; c_rec := %s |}") % (
        z(o["tdial"]), z(o["tdata"]), "None" if o["cancel"] < 0 else "Some %s" % z(o["cancel"]),
        verif.coq_bytes(ip_bytes(o["ip"])), z(o["port"]), script_term(o), z(o["obs"]), z(int(o["dur_ms"])),
        SLACK_MS + jitter_slack(o) + EXTRA_SLACK[0], greet, rec)


def case_file(rows):
    body = ["From Coq Require Import ZArith List.", "From SX Require Import Model.Socks Spec.C09.",
            "Import ListNotations.", "Open Scope Z_scope.", "Definition cases : list case := ["]
    body.append(";\n".join(case_term(o) for o in rows))
    body.append("].")
    body.append("Definition M := Eval vm_compute in check_all 0 cases.")
    body.append("Definition L := Eval vm_compute in length cases.")
    body.append("Print M. Print L.")
    return "\n".join(body)


def parse_eval(ctx, out, nrows):
    m = ctx.parse_result(out, "M")
    n_model = int(ctx.parse_result(out, "L"))
    if n_model != nrows:
        raise verif.Broken("case count differs between harness and model (%d vs %d)" % (nrows, n_model))
    res = []
    if m.strip() not in ("[]", "nil"):
        for idx, codes in re.findall(r"\((\d+), \[([^\]]*)\]\)", m):
            res.append((int(idx), [int(c.strip().strip("()")) for c in codes.split(";") if c.strip()]))
        if not res:
            raise verif.Broken("cannot parse mismatch list", m[:500])
    return res


def evaluate(ctx, rows, tag, nshards):
    """returns {row index: codes} for the rows that disagree with the model.  End-to-end rows (command line) are compared
    on the decision only: a record is printed iff the model reports."""
    idx_of = [i for i, o in enumerate(rows) if not o.get("e2e")]
    e2e_of = [i for i, o in enumerate(rows) if o.get("e2e")]
    bad = {}
    if idx_of:
        direct = [rows[i] for i in idx_of]
        size = max(1, (len(direct) + nshards - 1) // nshards)
        parts = [direct[i:i + size] for i in range(0, len(direct), size)]
        outs = ctx.coq_eval_many([("%s_%d" % (tag, i), case_file(p)) for i, p in enumerate(parts)])
        for k, (part, out) in enumerate(zip(parts, outs)):
            for idx, codes in parse_eval(ctx, out, len(part)):
                bad[idx_of[k * size + idx]] = codes
    if e2e_of:
        # the CLI has one --timeout for both; evaluate with obs := report: code 1 absent <=> the model reports
        probe = [dict(rows[i], obs=0, dur_ms=0, greet=None, rec=None, cancel=-1, tdial=rows[i]["tdata"]) for i in e2e_of]
        out = ctx.coq_eval("%s_e2e" % tag, case_file(probe))
        flagged = dict(parse_eval(ctx, out, len(probe)))
        for j, i in enumerate(e2e_of):
            model_reports = 1 not in flagged.get(j, [])
            if model_reports != (rows[i]["obs"] == 0):
                bad[i] = [1]
    return bad


def rerun(ctx, rows, tag, par=8):
    """run the given cases again on the real code, few at a time"""
    path = os.path.join(ctx.work, "%s-in.json" % tag)
    with open(path, "w") as f:
        json.dump(rows, f)
    ok, _ = ctx.harness_run("c09", ["-out", "%s.jsonl" % tag, "-replay", path, "-par", par], timeout=600)
    if not ok:
        return None
    return ctx.read_jsonl(os.path.join(ctx.work, "%s.jsonl" % tag))


def build_sx(ctx):
    """the real command-line binary, for the end-to-end cases (ties command/socks.go behaviourally)"""
    exe = os.path.join(ctx.work, "sx")
    rc, out = verif.sh(["go", "build", "-o", exe, "."], env=verif.GOENV, cwd=verif.REPO, timeout=900)
    if rc != 0:
        ctx.broken.append(("correspondence: the sx binary does not build", out[-1500:]))
        return None
    return exe


def corpus_rows(ctx):
    """regression inputs kept under corpus/: run first, judged like generated cases"""
    d = os.path.join(verif.ROOT, "corpus", ctx.pid)
    cases = []
    for f in sorted(os.listdir(d)) if os.path.isdir(d) else []:
        if f.endswith(".json"):
            cases += json.load(open(os.path.join(d, f)))
    return (rerun(ctx, cases, "corpus") or []) if cases else []


CONC_KEY = "concurrent:misreport"


def conc_stage(ctx, probes, ms, tag="conc", goroutines=64):
    """Concurrent stage: ONE real Scanner (built like command/socks.go builds it) shared by 64 goroutines, as
    scan.GenericEngine shares it between its workers, probing 12 persistent loopback peers with different answers
    (05 00 x5 incl. one with trailing bytes, 05 02 x2, 05 ff, 05 01, 04 00, 00 05, 00 00).  Every error-free probe is
    judged on its own by the property: reported iff ITS peer answered 05 00, record = ITS address and port."""
    ok, _ = ctx.harness_run("c09", ["-out", "%s.jsonl" % tag, "-conc-only", "-conc", probes, "-conc-ms", ms,
                                    "-conc-g", goroutines, "-seed", ctx.seed], timeout=900)
    if not ok:
        return None
    rows = ctx.read_jsonl(os.path.join(ctx.work, "%s.jsonl" % tag))
    if not rows:
        return None
    rows[0]["bad"] = rows[0].get("bad") or []
    rows[0]["engine"] = rows[1] if len(rows) > 1 else None
    return rows[0]


ENGINE_KEY = "engine:record-for-non-socks-answer"


def judge_engine(e):
    if e and e.get("bad"):
        g = e["bad"][0]
        return ("through the real scan.NewScanEngine + NewResultChan stage (as `sx socks` builds it): %s (peer %s:%d)" % (
            g["what"], g["ip"], g["port"]))
    return None


def report_engine(ctx, e, why):
    if any(f["key"] == ENGINE_KEY for f in ctx.findings):
        return
    path = ctx.write_replay("engine", {
        "property": "C09", "what": why,
        "input": {"engine": True, "workers": e["workers"],
                  "peers": [{"reply": g["peer_reply"], "requests": g["requests"]} for g in e["groups"]],
                  "note": "one persistent loopback peer per kind of answer; each probed `requests` times through the engine"},
        "observed": e["groups"], "replay_cmd": "bin/check C09 --replay <this file>"})
    ctx.findings.append({"key": ENGINE_KEY, "what": why, "replay": path})


def judge_conc(r):
    if r and r["bad"]:
        b = r["bad"][0]
        return ("with one Scanner shared by %d goroutines (as the scan engine shares it between its workers) the probe of "
                "%s:%d is %s (%d misjudged probes among %d)" % (
                    r["goroutines"], b["ip"], b["port"], b["what"], len(r["bad"]), r["judged"]))
    return None


def report_conc(ctx, r, why):
    if any(f["key"] == CONC_KEY for f in ctx.findings):
        return
    path = ctx.write_replay("concurrent", {
        "property": "C09", "what": why,
        "input": {"concurrent": True, "goroutines": r["goroutines"], "timeout_ms": r["timeout_ms"], "seed": r["seed"],
                  "probes": max(r["probes"], 20000),
                  "peers": [{"ip": p["ip"], "port": p["port"], "reply": p["reply"]} for p in r["peers"]],
                  "note": "peers listen on fresh ports at every run; the replay rebuilds the same mix of answers"},
        "observed": {"probes": r["probes"], "judged": r["judged"], "errors": r["errors"], "misjudged": r["bad"]},
        "replay_cmd": "bin/check C09 --replay <this file>"})
    ctx.findings.append({"key": CONC_KEY, "what": why, "replay": path})


def run_conc(ctx, probes, ms, tag="conc"):
    r = conc_stage(ctx, probes, ms, tag)
    if r:
        ctx.count("concurrent", ("concurrent", tag), nontrivial=True,
                  sample={"class": "concurrent", "goroutines": r["goroutines"], "probes": r["probes"], "judged": r["judged"],
                          "errors": r["errors"], "reported": r["reported"], "misjudged": len(r["bad"]),
                          "elapsed_ms": r["elapsed_ms"]})
        ctx.cov["evaluations"] += r["judged"] - 1
        if r["judged"] < 1000:
            ctx.broken.append(("correspondence: the concurrent stage judged only %d probes (%d errors)" % (
                r["judged"], r["errors"]), ""))
        why = judge_conc(r)
        if why:
            report_conc(ctx, r, why)
        e = r.get("engine")
        if e:
            ctx.count("engine", ("engine", tag), nontrivial=True,
                      sample={"class": "engine", "workers": e["workers"],
                              "records_per_answer": {" ".join("%02x" % b for b in g["peer_reply"]): g["records_on_result_channel"]
                                                     for g in e["groups"]}})
            ctx.cov["evaluations"] += sum(g["requests"] for g in e["groups"]) - 1
            why = judge_engine(e)
            if why:
                report_engine(ctx, e, why)
    return r


VANISH_KEY = "peer-vanishes:no-return"


def vanish_stage(ctx, tag="vanish"):
    """Peer-vanishes-after-the-handshake stage (always; ~1.5 s): the harness re-executes itself in a throw-away network
    namespace, a server accepts the probe and reads the greeting, then lo is brought DOWN so that nothing the probe sends
    -- in particular the FIN of its final Close, which SO_LINGER makes close(2) wait for -- is ever acknowledged.  Scan
    (dial 500 ms, data 300 ms) must return within dial + 3 x data + 2.5 s (the slack covers the ONE second of linger the
    code asks for), once running into its read timeout and once cancelled 200 ms after the peer vanished."""
    ok, out = ctx.harness_run("c09", ["-out", "%s.jsonl" % tag, "-vanish"], timeout=120)
    if not ok:
        return None
    return ctx.read_jsonl(os.path.join(ctx.work, "%s.jsonl" % tag))


def judge_vanish(rows):
    late = [r for r in rows or [] if not r.get("unavailable") and not r["returned"]]
    if late:
        r = late[0]
        return ("a probe whose peer vanishes right after the handshake (connection established, greeting read, then the link "
                "goes down%s) has not returned %.1f s after it was started -- connect timeout %d ms, data timeout %d ms, "
                "bound %d ms + %d ms slack for the one second of SO_LINGER" % (
                    "" if r["cancel_after_link_down_ms"] < 0 else "; scan cancelled %d ms later" % r["cancel_after_link_down_ms"],
                    r["dur_ms"] / 1000, r["tdial"], r["tdata"], r["tdial"] + 3 * r["tdata"], r["slack_ms"]))
    return None


def run_vanish(ctx):
    rows = vanish_stage(ctx)
    if rows is None:
        return
    na = [r["unavailable"] for r in rows if r.get("unavailable")]
    if na:
        ctx.skipped.append("peer-vanishes stage unavailable: %s" % na[0][:200])
        return
    why = judge_vanish(rows)
    if why:   # confirm by repeating once (a starved machine could delay a return by seconds, not twice by minutes)
        again = vanish_stage(ctx, "vanish_again")
        why2 = judge_vanish(again) if again and not any(r.get("unavailable") for r in again) else None
        if why2:
            rows, why = again, why2
        else:
            why = None
    for r in rows:
        ctx.count("peer-vanishes", ("peer-vanishes", r["sub"]), nontrivial=True,
                  sample={"class": "peer-vanishes", "sub": r["sub"], "returned": r["returned"], "dur_ms": r["dur_ms"],
                          "err": r["err"][:80]})
    if why and not any(f["key"] == VANISH_KEY for f in ctx.findings):
        path = ctx.write_replay("peer-vanishes", {
            "property": "C09", "what": why,
            "input": {"vanish": True, "tdial_ms": rows[0]["tdial"], "tdata_ms": rows[0]["tdata"],
                      "peer": "loopback listener in a fresh network namespace: accept, read the 3-byte greeting, then `lo` is "
                              "set DOWN (the peer's kernel no longer acknowledges anything, e.g. the probe's FIN)",
                      "sub-cases": "read-timeout (no cancellation), cancelled (context cancelled 200 ms after the link went down)"},
            "observed": rows, "replay_cmd": "bin/check C09 --replay <this file>"})
        ctx.findings.append({"key": VANISH_KEY, "what": why, "replay": path})


RACE_KEY = "cancel-race:late-return"


def race_sweep(ctx, attempts, tag="race"):
    """Cancel-race sweep (failing-input search and thorough tier): a stalling loopback peer cancels the scan's context on
    accept + a swept busy-wait of 0..100 us, so the cancellation lands everywhere between "dial returned" and "blocked
    in the reply read".  Judged by the property alone: Scan must return within the cancellation + slack (300 ms), far
    below the data timeout (800 ms); three late returns are required before anything is reported."""
    ok, _ = ctx.harness_run("c09", ["-out", "%s.jsonl" % tag, "-race", attempts], timeout=900)
    if not ok:
        return None
    rows = ctx.read_jsonl(os.path.join(ctx.work, "%s.jsonl" % tag))
    if not rows:
        return None
    rows[0]["late"] = rows[0].get("late") or []
    return rows[0]


def judge_race(r):
    if r and len(r["late"]) >= 3:
        worst = max(l["latency_ms"] for l in r["late"])
        return ("a probe whose context is cancelled right after the connection is established (peer accepts and stalls) "
                "returns %.0f ms after the cancellation, i.e. it sits out the %d ms data timeout instead of ending promptly "
                "(%d late returns in %d attempts; median latency %.1f ms)" % (
                    worst, r["tdata"], len(r["late"]), r["attempts"], r["median_ms"]))
    return None


def report_race(ctx, r, why):
    if any(f["key"] == RACE_KEY for f in ctx.findings):
        return
    path = ctx.write_replay("cancel-race", {
        "property": "C09", "what": why,
        "input": {"race": True, "attempts": r["max_attempts"], "tdial_ms": r["tdial"], "tdata_ms": r["tdata"],
                  "slack_ms": r["slack_ms"], "spin_us": "0..%d step 2, by attempt number" % r["spin_max_us"],
                  "peer": "loopback listener; on accept: busy-wait spin_us, cancel the context, (odd blocks: send one byte 05,) stall"},
        "observed": {"attempts_made": r["attempts"], "gomaxprocs": r["gomaxprocs"], "median_latency_ms": r["median_ms"],
                     "worst_latency_ms": r["worst_ms"], "late_returns": r["late"]},
        "replay_cmd": "bin/check C09 --replay <this file>"})
    ctx.findings.append({"key": RACE_KEY, "what": why, "replay": path})


def shape(o):
    return (o["class"], o["mode"], o["read_first"], o.get("prior", 0), bool(o.get("prior_cancel")), tuple((a["kind"], tuple((a.get("data") or [])[:2])) for a in o["actions"] or []))


def finding_key(o):
    return "%s:%s" % (o["class"], OBS.get(o["obs"], o["obs"]))


def with_history(o, why):
    """name the history of a Scanner-reuse case in the finding"""
    if why and o.get("prior"):
        return ("after %d completed Scan call(s) on the SAME Scanner, each under a context of its own (%s; their peers answered "
                "%s; outcomes %s), a Scan under a fresh context: %s" % (
                    o["prior"], "cancelled once its Scan had returned" if o.get("prior_cancel") else "still live",
                    " ".join("%02x" % b for b in o.get("prior_reply") or []),
                    [OBS.get(x, x) for x in o.get("prior_obs") or []], why))
    return why


def report(ctx, o, why):
    why = with_history(o, why)
    # one replay per kind of failure is enough; at most six in all
    if len(ctx.findings) >= 6 or any(f["key"] == finding_key(o) for f in ctx.findings):
        ctx.suppressed = getattr(ctx, "suppressed", 0) + 1
        return
    path = ctx.write_replay("case%d" % o["id"], {
        "property": "C09", "what": why, "input": dict({k: o[k] for k in (
            "id", "class", "tdial", "tdata", "cancel", "mode", "read_first", "actions", "ip")}, e2e=bool(o.get("e2e")),
            **{k: o[k] for k in ("prior", "prior_cancel", "prior_reply") if o.get(k)}),
        "observed": {"outcome": OBS.get(o["obs"], o["obs"]), "err": o["err"], "dur_ms": o["dur_ms"], "greet": o["greet"],
                     "rec": o["rec"], "port": o["port"], **({"prior_outcomes": [OBS.get(x, x) for x in o["prior_obs"]]}
                                                            if o.get("prior_obs") else {})},
        "replay_cmd": "bin/check C09 --replay <this file>"})
    ctx.findings.append({"key": finding_key(o), "what": why, "replay": path})


def stretch(o, k):
    """the same case with its whole timing multiplied by k"""
    c = json.loads(json.dumps(o))
    base = {"tdial": o["tdial"], "tdata": o["tdata"], "cancel": o["cancel"],
            "delays": [a.get("delay", 0) for a in o["actions"] or []], "class": o["class"]}
    c["tdial"], c["tdata"] = base["tdial"] * k, base["tdata"] * k
    c["cancel"] = base["cancel"] * k if base["cancel"] > 0 else base["cancel"]
    for a, d in zip(c["actions"] or [], base["delays"]):
        a["delay"] = d * k
    c["class"] = "%s [timing x%d]" % (base["class"], k)
    return c


def prop_excess(o):
    """by how many ms the observed duration exceeds the property's own bound including its fixed slack (<= 0: it does not)"""
    if o.get("e2e"):
        return o["dur_ms"] - (4 * o["tdata"] + 600)
    b = time_bound(o)
    return -1.0 if b is None else o["dur_ms"] - (b + SLACK_MS)


def time_only(o):
    """the property fails on this observation only because of a measured duration (never for a HANG)"""
    why = spec_on_impl(o)
    return bool(why) and o["obs"] != 11 and (" took " in why)


def settle(ctx, rows, tag):
    """Judge rows: property on the implementation + model comparison, re-running cases whose only problem can be
    scheduling noise.  Returns (rows after re-runs, {index: hard codes}, number of early returns)."""
    import time
    nshards = 8 if len(rows) < 3000 else 64
    bad = evaluate(ctx, rows, tag, nshards)

    def hard(i):
        return [c for c in bad.get(i, []) if c != 105]

    def redo(idxs, name, par):
        again = rerun(ctx, [rows[i] for i in idxs], name, par)
        if again is None or len(again) != len(idxs):
            return False
        for i, o in zip(idxs, again):
            rows[i] = o
        sub = evaluate(ctx, again, name, 4)
        for k, i in enumerate(idxs):
            if k in sub:
                bad[i] = sub[k]
            else:
                bad.pop(i, None)
        return True

    for attempt in range(2):
        idxs = sorted(i for i in set(bad) | {i for i, o in enumerate(rows) if spec_on_impl(o)}
                      if hard(i) or spec_on_impl(rows[i]))
        if not idxs or len(idxs) > 400:
            break
        if not redo(idxs, "%s_retry%d" % (tag, attempt), 8):
            break
    # Starvation can also change an OUTCOME: with 80-160 ms timeouts a starved probe may not see a reply in time and end
    # with a timeout.  Cases that still disagree, ended with a timeout and ran while the scheduling jitter was high are run
    # again with their whole timing (timeouts, delays, cancellation) stretched x4, then x8: the model is invariant under
    # scaling of time, the starvation delay is not.  The stretched observation replaces the original one (class suffix
    # " [timing xK]") and is judged like any other.
    # Stretching may only excuse a case when (a) starvation was actually MEASURED while that very case ran, (b) what is
    # wrong is the OUTCOME (a timeout where the model has none) -- a duration that exceeds a bound is never stretched away,
    # the duration stage below deals with it -- and (c) the timeouts are short (a configured timeout of seconds is not
    # what starvation defeats).
    def starved(i):
        o = rows[i]
        if load_ms(o) <= LOW_JITTER_MS or max(o["tdial"], o["tdata"]) > 1000:
            return False
        why = spec_on_impl(o)
        outcome_wrong = (1 in hard(i)) or (bool(why) and not time_only(o))
        return outcome_wrong and (o["obs"] in (2, 6) or (bool(o.get("e2e")) and o["obs"] == 1))

    stretch_base = {}
    for k in (4, 8):
        sus = [i for i in sorted(set(bad) | {i for i, o in enumerate(rows) if spec_on_impl(o)})
               if (hard(i) or spec_on_impl(rows[i])) and starved(i)]
        if not sus or len(sus) > 60:
            break
        time.sleep(1.0)
        saved = {i: rows[i] for i in sus}
        for i in sus:
            rows[i] = stretch(stretch_base.setdefault(i, saved[i]), k)
        if not redo(sus, "%s_stretch%d" % (tag, k), 2):
            for i in sus:
                rows[i] = saved[i]
            break
        ctx.info.append("%d cases that ended with a timeout under CPU starvation were run again with timing x%d" % (
            len(sus), k))
    # What is left and is about a DURATION only (outcome, greeting, record all agree; or only the property's time bound is
    # exceeded): under CPU starvation such a measurement says nothing.  Re-run these few cases up to three more times, two
    # at a time, pausing while the measured scheduling jitter is high; a mismatch counts only if it persists in a quiet
    # window (jitter <= LOW_JITTER_MS) or exceeds the allowance by a wide margin (250 ms + 12 x jitter) every time.
    def duration_only(i):
        o = rows[i]
        return o["obs"] < 98 and ((hard(i) == [4] and not spec_on_impl(o)) or (hard(i) in ([], [4]) and time_only(o)))

    pending = [i for i in sorted(set(bad) | {i for i, o in enumerate(rows) if spec_on_impl(o)}) if duration_only(i)]
    confirmed, wide = set(), {i: 0 for i in pending}
    if 0 < len(pending) <= 60:
        for rnd in range(3):
            if not pending:
                break
            jit = max(load_ms(rows[i]) for i in pending)
            if jit > LOW_JITTER_MS:
                time.sleep(min(4.0, 1.0 + jit / 50.0))
            if not redo(pending, "%s_quiet%d" % (tag, rnd), 2):
                break
            still = [i for i in pending if hard(i) or spec_on_impl(rows[i])]
            for i in still:
                if not duration_only(i):
                    confirmed.add(i)           # something else than a duration is wrong now: keep it
                elif load_ms(rows[i]) <= LOW_JITTER_MS:
                    confirmed.add(i)           # persists in a quiet window
                elif time_only(rows[i]) and prop_excess(rows[i]) > 4 * load_ms(rows[i]):
                    confirmed.add(i)           # the property's own bound is exceeded by more than the measured load explains
            # wide-margin test for the rest
            rest = [i for i in still if i not in confirmed]
            if rest:
                EXTRA_SLACK[0] = 250 + int(9 * max(load_ms(rows[i]) for i in rest))
                try:
                    sub = evaluate(ctx, [rows[i] for i in rest], "%s_wide%d" % (tag, rnd), 2)
                finally:
                    EXTRA_SLACK[0] = 0
                for k, i in enumerate(rest):
                    o = rows[i]
                    over_bound = prop_excess(o) > 250 + 12 * load_ms(o)
                    if 4 in sub.get(k, []) or over_bound:
                        wide[i] += 1
            pending = [i for i in still if i not in confirmed]
        for i in pending:
            if wide.get(i, 0) >= 3:
                confirmed.add(i)
        dropped = [i for i in pending if i not in confirmed]
        for i in dropped:
            bad.pop(i, None)
            rows[i]["inconclusive"] = True
        if dropped:
            ctx.info.append("%d duration comparisons were inconclusive because of CPU starvation (scheduling jitter up to "
                            "%.0f ms in every re-run) and are not counted: cases %s" % (
                                len(dropped), max(load_ms(rows[i]) for i in dropped),
                                [rows[i]["id"] for i in dropped][:10]))
    return rows, {i: hard(i) for i in bad if hard(i)}, sum(1 for cs in bad.values() if 105 in cs)


def run(ctx):
    quick = ctx.tier == "quick"
    ctx.trusted += [
        "Go's net (Dialer timeouts, deadlines, Close unblocking pending I/O), encoding/binary.Read = io.ReadFull, and the "
        "Linux TCP stack are modelled (Model/Socks.v: wait/natural/read_full), not verified; they are exercised through "
        "loopback peers",
        "the hand-written model of Scanner.Scan / socksConn is tied to the code by the differential harness only "
        "(statement order, per-call deadlines, watchdog goroutine)"]
    ctx.assumptions += [
        "the time bound assumes the operating system honours socket deadlines; it is measured with %d ms slack" % SLACK_MS,
        "a dial timeout of 0 means no timeout to net.Dialer: C09_time has the hypothesis t_dial <> 0 "
        "(the CLI default is 2 s)",
        "SetLinger failures, write timeouts and write errors are in the model and theorems but cannot be provoked "
        "on loopback (a reset racing the write is the only write fault exercised)"]
    gen_ok = ctx.gen()
    model_ok = gen_ok and ctx.coq_model(["Spec/C09.vo"])
    proof_ok = gen_ok and ctx.coq_proofs("Properties/C09.v")
    rows = []
    if ctx.harness_build("c09"):
        args = ["-out", "cases.jsonl", "-seed", ctx.seed, "-n", 330 if quick else 3000, "-sample", 200,
                "-reuse", 32 if quick else 320]
        sx = build_sx(ctx)
        if sx:
            args += ["-e2e", sx]
        if not quick:
            args.append("-all")
        ok, _ = ctx.harness_run("c09", args, timeout=3000)
        if ok:
            rows = corpus_rows(ctx) + ctx.read_jsonl(os.path.join(ctx.work, "cases.jsonl"))
        run_vanish(ctx)
        # many workers, one Scanner (always; ~1.5 s in quick)
        run_conc(ctx, 30000 if quick else 400000, 2500 if quick else 25000)
        if not quick:
            ctx.harness_race_run("c09", ["-out", "conc_race.jsonl", "-conc-only", "-conc", 20000, "-conc-ms", 15000,
                                         "-seed", ctx.seed],
                                 "in socks5.Scanner.Scan when one Scanner is shared by 64 goroutines")
    hard, early = {}, 0
    if model_ok and rows:
        rows, hard, early = settle(ctx, rows, "cases")
        ctx.cov["traces_validated_against_impl"] += len(rows)
    elif rows:
        # no model: still re-run what looks like a property failure to rule out scheduling noise
        idxs = [i for i, o in enumerate(rows) if spec_on_impl(o)]
        if idxs and len(idxs) <= 400:
            again = rerun(ctx, [rows[i] for i in idxs], "nomodel_retry")
            if again and len(again) == len(idxs):
                for i, o in zip(idxs, again):
                    rows[i] = o
    for i, o in enumerate(rows):
        ctx.count(o["class"], shape(o), nontrivial=(o["mode"] == "accept"),
                  sample={"class": o["class"], "timeouts_ms": [o["tdial"], o["tdata"]], "cancel_ms": o["cancel"],
                          "mode": o["mode"], "actions": o["actions"][:3] if o["actions"] else [],
                          **({"prior_scans_on_same_scanner": o["prior"], "prior_contexts": "cancelled" if o.get("prior_cancel")
                              else "live", "prior_outcomes": [OBS.get(x, x) for x in o.get("prior_obs") or []]}
                             if o.get("prior") else {}),
                          "outcome": OBS.get(o["obs"], o["obs"]), "dur_ms": o["dur_ms"]})
        if o["obs"] >= 98:
            ctx.broken.append(("correspondence: harness could not run case %d (%s)" % (o["id"], o["err"]), ""))
            continue
        why = spec_on_impl(o)
        if why and not (o.get("inconclusive") and time_only(o)):
            report(ctx, o, why)
    for i, codes in sorted(hard.items())[:20]:
        o = rows[i]
        ctx.broken.append(("correspondence: case %d (%s): %s" % (o["id"], o["class"], "; ".join(CODES[c] for c in codes)),
                           json.dumps(o)[:700]))
    if getattr(ctx, "suppressed", 0):
        ctx.info.append("%d further failing cases of the same kinds are not listed" % ctx.suppressed)
    if early:
        ctx.info.append("%d cases returned earlier than the model's logical duration (not an alarm)" % early)
    have_bin = os.path.exists(os.path.join(verif.HBIN, "c09"))
    if have_bin and (not quick or (ctx.broken and not ctx.findings)):
        # interleaving-dependent cancellation failures: swept cancel-right-after-connect (thorough: always)
        r = race_sweep(ctx, 400 if quick else 1200)
        if r:
            ctx.count("cancel-race", ("cancel-race", r["attempts"]), nontrivial=True,
                      sample={"class": "cancel-race", "attempts": r["attempts"], "tdata_ms": r["tdata"],
                              "median_latency_ms": r["median_ms"], "worst_latency_ms": r["worst_ms"],
                              "late": len(r["late"])})
            ctx.cov["evaluations"] += r["attempts"] - 1
            why = judge_race(r)
            if why:
                report_race(ctx, r, why)
    if ctx.broken and not ctx.findings and have_bin and quick:
        run_conc(ctx, 400000, 20000, "conc_search")
    if ctx.broken and not ctx.findings and have_bin:
        # a tie or a proof broke: look harder for a concrete failing input on the real code
        ok, _ = ctx.harness_run("c09", ["-out", "search.jsonl", "-seed", ctx.seed + 17, "-n", 1500, "-sample", 2500],
                                timeout=1200)
        if ok:
            srows = ctx.read_jsonl(os.path.join(ctx.work, "search.jsonl"))
            idxs = [i for i, o in enumerate(srows) if o["obs"] < 98 and spec_on_impl(o)]
            if idxs and len(idxs) <= 400:
                again = rerun(ctx, [srows[i] for i in idxs], "search_retry")
                if again and len(again) == len(idxs):
                    srows = again
                    idxs = list(range(len(again)))
            seen = set()
            for i in idxs:
                why = spec_on_impl(srows[i])
                if why and srows[i]["class"] not in seen and len(seen) < 3:
                    seen.add(srows[i]["class"])
                    report(ctx, srows[i], why)
    return ctx.finish(rule=RULE)


def replay(ctx, path):
    r = json.load(open(path))
    if "input" not in r:
        print(json.dumps(r, indent=1))
        return 1
    if not ctx.harness_build("c09"):
        return 1
    if r["input"].get("vanish"):
        rows = vanish_stage(ctx, "vanish_replay") or []
        why = judge_vanish(rows)
        print("replay peer-vanishes stage: %s -> %s" % (
            [(x.get("sub"), "returned after %.0f ms" % x["dur_ms"] if x.get("returned") else "NOT returned after %.0f ms" % x.get("dur_ms", 0),
              x.get("err", "")[:60], x.get("unavailable", "")) for x in rows], why or "property holds on this input"))
        return 1 if why else 0
    if r["input"].get("engine"):
        row = conc_stage(ctx, 2000, 3000, "engine_replay")
        e = (row or {}).get("engine")
        why = judge_engine(e)
        print("replay engine stage: records on the result channel per peer answer: %s -> %s" % (
            {" ".join("%02x" % b for b in g["peer_reply"]): g["records_on_result_channel"] for g in (e or {}).get("groups", [])},
            why or "property holds on this input"))
        return 1 if why else 0
    if r["input"].get("concurrent"):
        for k in range(2):
            row = conc_stage(ctx, r["input"].get("probes", 30000) * (1 + 4 * k), 5000 * (1 + 2 * k), "conc_replay%d" % k,
                             r["input"].get("goroutines", 64))
            why = judge_conc(row)
            print("replay concurrent stage: %d goroutines, %d probes judged, %d errors, misjudged: %s -> %s" % (
                row["goroutines"], row["judged"], row["errors"],
                [(b["ip"], b["port"], b["peer_reply"], "reported" if b["reported"] else "not reported") for b in row["bad"]],
                why or "property holds on this input"))
            if why:
                return 1
        return 0
    if r["input"].get("race"):
        for k in range(2):
            row = race_sweep(ctx, r["input"].get("attempts", 400), "race_replay%d" % k)
            why = judge_race(row)
            print("replay cancel-race sweep: %d attempts, median latency %.1f ms, worst %.1f ms, late returns: %s -> %s" % (
                row["attempts"], row["median_ms"], row["worst_ms"],
                [(l["spin_us"], round(l["latency_ms"])) for l in row["late"]], why or "property holds on this input"))
            if not why:
                return 0
        return 1
    c = dict(r["input"])
    c.update({"port": 0, "obs": 0, "err": "", "dur_ms": 0, "greet": None, "rec": None, "tries": 0})
    c["e2e"] = (build_sx(ctx) or "") if c.get("e2e") else ""
    worst = None
    for k in range(3):
        got = rerun(ctx, [c], "replay%d" % k)
        if not got:
            return 1
        o = got[0]
        why = with_history(o, spec_on_impl(o))
        print("replay case %s (%s): outcome=%s dur=%.1f ms err=%r -> %s" % (
            c.get("id"), c.get("class"), OBS.get(o["obs"], o["obs"]), o["dur_ms"], o["err"],
            why or "property holds on this input"))
        if not why:
            return 0
        worst = why
    return 1 if worst else 0


MANIFEST = {
    "technique": "Coq proof (probe state machine over all server scripts; induction over the ReadFull loop and the read "
                 "script; logical time with per-operation deadlines and cancellation) + translated constants/wiring + "
                 "differential correspondence against scripted loopback TCP peers",
    "level_text": "Theorems C09_iff / C09_all_replies / C09_short_reply (report iff connected, greeting written and the "
                  "delivered stream starts 05 00, for every split and every continuation), C09_record, C09_greeting(_sent), "
                  "C09_time (<= dial timeout + 3 data timeouts, at most 2 reads, for every script), C09_cancel_prompt / "
                  "_sound / _late, C09_wiring hold for all scripts, timeouts and cancellation times over constants "
                  "regenerated from socks5/*.go and command/socks.go on every run; the executable model is compared with "
                  "the real Scanner.Scan (outcome class, greeting bytes, record, duration) on every 05 xx / xx 00 reply, a "
                  "sample of the rest (thorough: all 65536) and 22 families of fault scripts.",
    "level_note": "Partial: real time is logical time in the model; the bound assumes the OS honours socket deadlines "
                  "(measured with slack). Go's net/io/binary and the TCP stack are modelled, tied by differential testing. "
                  "C09_time needs a dial timeout <> 0 (0 = no timeout for net.Dialer). No axioms.",
    "design_ref": "DESIGN.md section 5 (C09)",
}
