"""C05 -- probe frames carry exactly the requested fields and are well formed."""
import json
import os
import re

import verif

RULE = ("[also: one shared filler per kind and link mode called from 8 goroutines, every frame pre-judged against its own "
        "request, failures and a sample judged by the oracle and the model; whole sx commands on a veth pair / tun] "
        "all 512 TCP flag sets (both link modes spread over them); udp/icmp payload lengths 0..70 each plus lengths up "
        "to the sweep maximum of both parities; random TTL / IP flags / type / code; length and protocol overrides; "
        "options through the exported constructors and through the real command line plumbing; 4-byte and 16-byte "
        "IPv4 destination addresses; ARP; a separate malformed stream (nil/short/long MACs and addresses, IPv6 "
        "addresses). Every random choice derives from the seed. non-trivial = a frame was produced for a well-formed "
        "request; distinct by (kind, options, request, seed)")

CODES = {1: "Fill returns an error where the model builds a frame (or the other way round)",
         2: "frame bytes differ from the model's frame for the same options, request and spoofed fields",
         3: "frame too short to carry the spoofed fields",
         10: "IPv4 id outside 1..65535", 11: "source port outside 32768..60999", 12: "ICMP id outside 1..65535",
         13: "default ICMP payload is not 48 bytes",
         100: "(info) spoofed fields are not what the model derives from the predicted draws"}

WIRE_QUICK, WIRE_THOROUGH = 6000, 200000
CONC_QUICK, CONC_THOROUGH = 30000, 1000000
KIND = {"tcp": 0, "udp": 1, "icmp": 2, "arp": 3}
TCP_BITS = ["FIN", "SYN", "RST", "PSH", "ACK", "URG", "ECE", "CWR", "NS"]
# advertised defaults (CLI help texts / README): used only by the implementation-side judgement below
DEFAULTS = {"udp": {"ttl": 64, "proto": 17, "ipflags": 2}, "icmp": {"ttl": 64, "proto": 1, "ipflags": 2, "typ": 8, "code": 0}}


def unhex(s):
    return b"" if s in ("nil", "") else bytes.fromhex(s)


# ------------------------------------------------------------------ independent judgement of one observation
def inet_sum(data):
    """RFC 1071: ones'-complement sum of the 16-bit words, odd byte padded; a valid block sums to 0xffff."""
    if len(data) % 2:
        data = data + b"\0"
    s = 0
    for i in range(0, len(data), 2):
        s += (data[i] << 8) | data[i + 1]
        if s > 0xffff:
            s -= 0xffff
    return s


def mapped4(a):
    """The 4 address bytes of a 4-byte or 16-byte IPv4-mapped address, else None."""
    if len(a) == 4:
        return a
    if len(a) == 16 and a[:12] == b"\0" * 10 + b"\xff\xff":
        return a[12:]
    return None


def well_formed_request(o):
    """Requests inside the quantifier of the property: what the commands can hand to Fill. Destination addresses (and,
    for the IPv4 based fillers, source addresses) may come in Go's 16-byte form of an IPv4 address (net.ParseIP yields
    it for address files): the frame has to be the same as for the 4-byte form. The source address of an ARP request is
    always the 4-byte form: getScanRange converts it (pinned by the source tie) and the unchanged arp filler copies it
    verbatim, so a 16-byte source handed to the arp filler directly is an input the program cannot produce -- such cases
    are only compared with the model, never judged (the real path, `sx arp --srcip`, is judged by the e2e stage)."""
    kind = o["kind"]
    src, dst = unhex(o["src_ip"]), unhex(o["dst_ip"])
    if mapped4(src) is None or mapped4(dst) is None:
        return False
    if kind == "arp" and len(src) != 4:
        return False
    if kind == "arp":
        return len(unhex(o["src_mac"])) == 6
    if not o["vpn"]:
        return len(unhex(o["src_mac"])) == 6 and len(unhex(o["dst_mac"])) == 6
    return True


def requested(o):
    """The field values the caller asked for (defaults where nothing was asked)."""
    d = dict(DEFAULTS.get(o["kind"], {}))
    for k in ("ttl", "proto", "ipflags", "typ", "code"):
        if o[k] >= 0:
            d[k] = o[k]
    d["iplen"] = o["iplen"] if o["iplen"] > 0 else 0
    return d


def spec_on_impl(o):
    """The property judged on the implementation's frame alone. Returns None or the reason it fails."""
    if not well_formed_request(o):
        return None        # outside the quantifier of the property
    if o["kind"] in ("udp", "icmp") and o["has_payload"] and 28 + len(o["payload"]) // 2 > 65535:
        return None        # does not fit an IPv4 datagram: outside the quantifier (the model still has to agree)
    if o["err"]:
        return o["err"] if o.get("via") == "wire" else "Fill fails on a well-formed request: " + o["err"]
    f = bytes.fromhex(o["frame"])
    kind = o["kind"]
    src, dst = unhex(o["src_ip"])[-4:], unhex(o["dst_ip"])[-4:]
    if kind == "arp":
        if len(f) != 60:
            return "ARP frame has %d bytes, expected 60" % len(f)
        if f[0:6] != b"\xff" * 6 or f[6:12] != unhex(o["src_mac"]) or f[12:14] != b"\x08\x06":
            return "ARP frame: Ethernet header is not broadcast / source MAC / 0x0806"
        a = f[14:]
        if a[0:8] != bytes([0, 1, 8, 0, 6, 4, 0, 1]):
            return "ARP header is not Ethernet/IPv4/6/4/request"
        if a[8:14] != unhex(o["src_mac"]) or a[14:18] != src:
            return "ARP sender addresses are not the requested source MAC / IP"
        if a[24:28] != dst:
            return "ARP target protocol address is not the requested destination"
        if any(a[28:]):
            return "ARP frame padding is not zero"
        return None
    if o["vpn"]:
        dg = f
    else:
        if len(f) < 60:
            return "Ethernet frame shorter than 60 bytes"
        if f[0:6] != unhex(o["dst_mac"]) or f[6:12] != unhex(o["src_mac"]):
            return "Ethernet addresses are not the requested MACs"
        if f[12:14] != b"\x08\x00":
            return "ethertype is not 0x0800"
        dg = f[14:]
    if len(dg) < 20:
        return "no room for an IPv4 header"
    want = requested(o) if kind != "tcp" else {"ttl": dg[8], "proto": 6, "ipflags": dg[6] >> 5, "iplen": 0}
    if dg[0] != 0x45:
        return "IPv4 version/IHL byte is 0x%02x, expected 0x45" % dg[0]
    if inet_sum(dg[:20]) != 0xffff:
        return "IPv4 header checksum is wrong"
    totlen = (dg[2] << 8) | dg[3]
    ipid = (dg[4] << 8) | dg[5]
    if ipid == 0:
        return "IPv4 id is 0"
    if dg[6] >> 5 != want["ipflags"] & 7:
        return "IP flags are %d, requested %d" % (dg[6] >> 5, want["ipflags"])
    if (dg[6] & 0x1f) or dg[7]:
        return "fragment offset is not 0"
    if dg[8] != want["ttl"]:
        return "TTL is %d, requested %d" % (dg[8], want["ttl"])
    if dg[9] != want["proto"]:
        return "IP protocol is %d, requested %d" % (dg[9], want["proto"])
    if dg[12:16] != src or dg[16:20] != dst:
        return "IPv4 addresses are not the requested ones"
    l4 = dg[20:]
    if kind == "tcp":
        n = 20 + 4 * (l4[12] >> 4) if len(l4) >= 20 else -1
    elif kind == "udp":
        n = 28 + len(unhex(o["payload"])) if o["has_payload"] else 28
    else:
        n = 28 + (len(unhex(o["payload"])) if o["has_payload"] else 48)
    override = want["iplen"] > 0
    if override:
        if totlen != want["iplen"]:
            return "explicit IP total length %d does not appear verbatim (field is %d)" % (want["iplen"], totlen)
    elif totlen != n or totlen > len(dg):
        return "IPv4 total length is %d, the datagram has %d bytes" % (totlen, n)
    if len(dg) < n:
        return "datagram is shorter (%d) than its headers and payload (%d)" % (len(dg), n)
    if any(dg[n:]) or (len(dg) > n and len(f) != 60):
        return "bytes after the datagram are not Ethernet zero padding"
    l4 = dg[20:n]
    if kind == "tcp":
        sport, dport = (l4[0] << 8) | l4[1], (l4[2] << 8) | l4[3]
        if not 32768 <= sport <= 60999:
            return "TCP source port %d outside 32768..60999" % sport
        if dport != o["dport"]:
            return "TCP destination port is %d, requested %d" % (dport, o["dport"])
        bits = ((l4[12] & 1) << 8) | l4[13]
        if bits != o["flags"]:
            return "TCP flags are %s, requested %s" % (flag_names(bits), flag_names(o["flags"]))
        if l4[12] & 0x0e:
            return "TCP reserved bits are set"
        doff = l4[12] >> 4
        if doff < 5 or 4 * doff != len(l4):
            return "TCP data offset %d does not match the segment length %d" % (doff, len(l4))
        if l4[18] or l4[19]:
            return "TCP urgent pointer set"
        why = tcp_options_ok(l4[20:])
        if why:
            return why
        ph = src + dst + bytes([0, 6, len(l4) >> 8, len(l4) & 255])
        if inet_sum(ph + l4) != 0xffff:
            return "TCP checksum is wrong"
        return None
    if kind == "udp":
        pl = unhex(o["payload"]) if o["has_payload"] else b""
        sport, dport = (l4[0] << 8) | l4[1], (l4[2] << 8) | l4[3]
        if not 32768 <= sport <= 60999:
            return "UDP source port %d outside 32768..60999" % sport
        if dport != o["dport"]:
            return "UDP destination port is %d, requested %d" % (dport, o["dport"])
        ulen = (l4[4] << 8) | l4[5]
        if ulen != 8 + len(pl):
            return "UDP length field is %d, header and payload have %d bytes" % (ulen, 8 + len(pl))
        if l4[8:] != pl:
            return "UDP payload differs from the requested payload"
        ph = src + dst + bytes([0, 17, ulen >> 8, ulen & 255])
        if inet_sum(ph + l4) != 0xffff:
            return "UDP checksum is wrong"
        return None
    # icmp
    if l4[0] != want["typ"] or l4[1] != want["code"]:
        return "ICMP type/code are %d/%d, requested %d/%d" % (l4[0], l4[1], want["typ"], want["code"])
    if ((l4[4] << 8) | l4[5]) == 0:
        return "ICMP id is 0"
    if o["has_payload"] and l4[8:] != unhex(o["payload"]):
        return "ICMP payload differs from the requested payload"
    if inet_sum(l4) != 0xffff:
        return "ICMP checksum is wrong"
    return None


def flag_names(bits):
    return "+".join(n for i, n in enumerate(TCP_BITS) if bits & (1 << i)) or "none"


def tcp_options_ok(b):
    i = 0
    while i < len(b):
        k = b[i]
        if k == 0:
            return "TCP option padding is not zero" if any(b[i:]) else None
        if k == 1:
            i += 1
            continue
        if i + 1 >= len(b) or b[i + 1] < 2 or i + b[i + 1] > len(b):
            return "TCP option %d has a bad length" % k
        i += b[i + 1]
    return None


# ------------------------------------------------------------------ model side
def case_term(o):
    z, pk, b = verif.coq_z, verif.coq_packed, verif.coq_bool
    return ("{| c_kind := %d; c_cli := %s; c_vpn := %s; c_flags := %s; c_ttl := %s; c_iplen := %s; c_proto := %s; "
            "c_ipflags := %s; c_typ := %s; c_code := %s; c_has_payload := %s; c_payload := %s; c_src_ip := %s; "
            "c_dst_ip := %s; c_src_mac := %s; c_dst_mac := %s; c_dport := %s; c_err := %s; c_frame := %s; "
            "c_predicted := %s; c_d_id := %s; c_d_sport := %s; c_d_seq := %s; c_d_icmpid := %s; c_d_payload := %s |}") % (
        KIND[o["kind"]], b(o["via"] == "cli"), b(o["vpn"]), z(o["flags"]), z(o["ttl"]), z(o["iplen"]), z(o["proto"]),
        z(o["ipflags"]), z(o["typ"]), z(o["code"]), b(o["has_payload"]), pk(unhex(o["payload"])), pk(unhex(o["src_ip"])),
        pk(unhex(o["dst_ip"])), pk(unhex(o["src_mac"])), pk(unhex(o["dst_mac"])), z(o["dport"]), b(bool(o["err"])),
        pk(unhex(o["frame"])), b(o["skip"] == 0), z(o["d_id"]), z(o["d_sport"]), z(o["d_seq"]), z(o["d_icmpid"]),
        pk(unhex(o.get("d_payload", ""))))


def case_file(rows):
    body = ["From Coq Require Import ZArith List Uint63.", "From SX Require Import Base.Bytes Spec.C05.",
            "Import ListNotations.", "Open Scope Z_scope.", "Definition cases : list case := ["]
    body.append(";\n".join(case_term(o) for o in rows))
    body.append("].")
    body.append("Definition M := Eval vm_compute in check_all 0 cases.")
    body.append("Definition L := Eval vm_compute in length cases.")
    body.append("Print M. Print L.")
    return "\n".join(body)


def parse_eval(ctx, out, nrows):
    m = ctx.parse_result(out, "M")
    n_model = int(ctx.parse_result(out, "L"))
    if n_model != nrows:
        raise verif.Broken("case count differs between harness and model (%d vs %d)" % (nrows, n_model))
    res = []
    if m.strip() not in ("[]", "nil"):
        for idx, codes in re.findall(r"\((\d+), \[([^\]]*)\]\)", m):
            res.append((int(idx), [int(c.strip().strip("()")) for c in codes.split(";") if c.strip()]))
        if not res:
            raise verif.Broken("cannot parse mismatch list", m[:500])
    return res


INPUT_KEYS = ["conc", "conc_n", "class", "kind", "via", "vpn", "flags", "ttl", "iplen", "proto", "ipflags", "typ", "code", "has_payload",
              "payload", "src_ip", "dst_ip", "src_mac", "dst_mac", "dport", "seed", "skip", "argv"]


def describe(o):
    s = "%s via %s%s" % (o["kind"], o["via"], " vpn" if o["vpn"] else "")
    if o["kind"] == "tcp":
        s += " flags=" + flag_names(o["flags"])
    else:
        for k in ("ttl", "iplen", "proto", "ipflags", "typ", "code"):
            if o[k] >= 0:
                s += " %s=%d" % (k, o[k])
        if o["has_payload"]:
            s += " payload=%dB" % (len(o["payload"]) // 2)
    if o.get("argv"):
        s += " argv=" + " ".join(a if a and a == a.strip() else json.dumps(a) for a in o["argv"])
    if o.get("via") == "concurrent":
        s += " [one filler shared by 8 goroutines, %d Fill calls]" % o.get("conc_n", 0)
    if o.get("via") == "wire":
        s += " dst=%s dport=%d [frame seen by the writer behind the real multi generator (8 workers) + sender, %d requests]" % (
            ".".join(str(b) for b in unhex(o["dst_ip"])), o["dport"], o.get("conc_n", 0))
    return s


def finding_key(o, why):
    if o.get("via") == "concurrent":
        return "concurrent:%s:%s" % (o["kind"], " ".join(why.split()[:3]))
    if o.get("via") == "wire":
        return "wire:%s:%s" % (o["kind"], " ".join(why.split()[:3]))
    if o["kind"] == "udp" and o["iplen"] > 0 and why.startswith("UDP length field is 0"):
        return "udp:iplen-override:udp-length-zero"
    return "%s:%s" % (o["kind"], " ".join(why.split()[:3]))


def report(ctx, o, why):
    if any(fd["key"] == finding_key(o, why) for fd in ctx.findings):
        return      # one replay file per kind of failure is enough
    tag = "%s-%d" % (o["kind"], o["i"])
    path = ctx.write_replay(tag, {
        "property": "C05", "what": why, "case": describe(o),
        "input": {k: o[k] for k in INPUT_KEYS if k in o},
        "observed": {"err": o["err"], "frame": o["frame"]},
        "replay_cmd": "bin/check C05 --replay <this file>"})
    ctx.findings.append({"key": finding_key(o, why), "what": "%s: %s" % (describe(o), why), "replay": path})


def nontrivial(o):
    return well_formed_request(o) and not o["err"] and 28 + len(o["payload"]) // 2 <= 65535


def distinct_key(o):
    return (o["kind"], o["via"], o["vpn"], o["flags"], o["ttl"], o["iplen"], o["proto"], o["ipflags"], o["typ"],
            o["code"], o["payload"], o["src_ip"], o["dst_ip"], o["dport"], o["seed"])


def run_harness(ctx, name, args):
    ok, _ = ctx.harness_run("c05", ["-out", name] + args, timeout=900)
    return ctx.read_jsonl(os.path.join(ctx.work, name)) if ok else []


def evaluate(ctx, rows, nshards, prefix):
    """Model vs implementation inside Coq. Returns number of informational (100) cases."""
    info100 = 0
    size = max(1, (len(rows) + nshards - 1) // nshards)
    parts = [rows[i:i + size] for i in range(0, len(rows), size)]
    outs = ctx.coq_eval_many([("%s_%d" % (prefix, i), case_file(p)) for i, p in enumerate(parts)])
    for part, out in zip(parts, outs):
        for idx, codes in parse_eval(ctx, out, len(part)):
            o = part[idx]
            hard = [c for c in codes if c != 100]
            if 100 in codes:
                info100 += 1
            if hard:
                ctx.broken.append(("correspondence: %s: %s" % (describe(o), "; ".join(CODES[c] for c in hard)),
                                   json.dumps({k: o[k] for k in INPUT_KEYS + ["err", "frame"] if k in o})[:900]))
        ctx.cov["traces_validated_against_impl"] += len(part)
    return info100


# ------------------------------------------------------------------ end to end: frames of whole commands on a virtual wire
E2E = {False: {"iface": "v0", "src_ip": "0a370001", "dst_ip": "0a370002", "dst": "10.55.0.2", "src_mac": "020000000501",
               "dst_mac": "020000000502"},
       True: {"iface": "tun5", "src_ip": "0a380001", "dst_ip": "0a380002", "dst": "10.56.0.2", "src_mac": "nil",
              "dst_mac": "nil"}}


E2E_OVR = ["--srcip", "10.9.8.7", "--srcmac", "02:00:5e:10:20:30"]
E2E_OVR_WANT = {"src_ip": "0a090807", "src_mac": "02005e102030"}


def e2e_plan(quick):
    """(name, vpn, sx arguments, expected option values, requested ports)."""
    pl3, esc3 = "deadbe", "\\xde\\xad\\xbe"
    plan = [
        ("tcp-syn", False, ["tcp", "syn", "-p", "80,443"], {"kind": "tcp", "flags": 2}, [80, 443]),
        ("tcp-flags", False, ["tcp", "--flags", "fin,ack", "-p", "22"], {"kind": "tcp", "flags": 17}, [22]),
        ("tcp-xmas", False, ["tcp", "xmas", "-p", "1"], {"kind": "tcp", "flags": 41}, [1]),
        ("tcp-null", False, ["tcp", "null", "-p", "65535"], {"kind": "tcp", "flags": 0}, [65535]),
        ("tcp-fin", False, ["tcp", "fin", "-p", "7,8"], {"kind": "tcp", "flags": 1}, [7, 8]),
        ("tcp-default", False, ["tcp", "-p", "9"], {"kind": "tcp", "flags": 2}, [9]),
        ("vpn-tcp-null", True, ["tcp", "null", "-p", "10"], {"kind": "tcp", "flags": 0}, [10]),
        ("udp-payload", False, ["udp", "-p", "53", "--ttl", "99", "--ipflags", "mf", "--payload", esc3],
         {"kind": "udp", "ttl": 99, "ipflags": 1, "has_payload": True, "payload": pl3}, [53]),
        ("udp-iplen", False, ["udp", "-p", "161", "--iplen", "29", "--payload", "\\xab"],
         {"kind": "udp", "iplen": 29, "has_payload": True, "payload": "ab"}, [161]),
        ("icmp-type13", False, ["icmp", "--type", "13", "--code", "0", "--ttl", "37", "--payload", esc3],
         {"kind": "icmp", "typ": 13, "code": 0, "ttl": 37, "has_payload": True, "payload": pl3}, [0]),
        ("arp", False, ["arp"], {"kind": "arp"}, [0]),
        ("udp-blank-payload", False, ["udp", "-p", "54", "--payload", " x\t"],
         {"kind": "udp", "has_payload": True, "payload": "207809"}, [54]),
        # every packet command with --srcip / --srcmac overrides (flag parsing -> parseRawOptions -> getScanRange ->
        # request generators -> filler): the frames must carry exactly the overriding addresses
        ("arp-srcip", False, ["arp"] + E2E_OVR, dict({"kind": "arp"}, **E2E_OVR_WANT), [0]),
        ("tcp-syn-srcip", False, ["tcp", "syn", "-p", "8080"] + E2E_OVR, dict({"kind": "tcp", "flags": 2}, **E2E_OVR_WANT), [8080]),
        ("udp-srcip", False, ["udp", "-p", "123"] + E2E_OVR, dict({"kind": "udp"}, **E2E_OVR_WANT), [123]),
        ("icmp-srcip", False, ["icmp"] + E2E_OVR, dict({"kind": "icmp"}, **E2E_OVR_WANT), [0]),
        ("vpn-icmp-srcip", True, ["icmp", "--srcip", "10.9.8.7"], {"kind": "icmp", "src_ip": "0a090807"}, [0]),
        ("vpn-tcp-syn", True, ["tcp", "syn", "-p", "443"], {"kind": "tcp", "flags": 2}, [443]),
        ("vpn-udp", True, ["udp", "-p", "53", "--payload", esc3], {"kind": "udp", "has_payload": True, "payload": pl3}, [53]),
    ]
    if not quick:
        plan += [
            ("tcp-all", False, ["tcp", "--flags", "syn,ack,fin,rst,psh,urg,ece,cwr,ns", "-p", "5"],
             {"kind": "tcp", "flags": 511}, [5]),
            ("icmp-default", False, ["icmp"], {"kind": "icmp"}, [0]),
            ("icmp-proto", False, ["icmp", "--ipproto", "157", "--ipflags", "df,evil"],
             {"kind": "icmp", "proto": 157, "ipflags": 6}, [0]),
            ("udp-empty", False, ["udp", "-p", "1-3"], {"kind": "udp"}, [1, 2, 3]),
            ("vpn-tcp-flags", True, ["tcp", "--flags", "rst,ns", "-p", "9"], {"kind": "tcp", "flags": 260}, [9]),
            ("vpn-udp-iplen", True, ["udp", "-p", "7", "--iplen", "1500"], {"kind": "udp", "iplen": 1500}, [7]),
            ("vpn-icmp-default", True, ["icmp"], {"kind": "icmp"}, [0]),
            ("icmp-blank-payload", False, ["icmp", "--payload", " "], {"kind": "icmp", "has_payload": True, "payload": "20"}, [0]),
            ("vpn-udp-blank-payload", True, ["udp", "-p", "55", "--payload", "PING \u00a0"],
             {"kind": "udp", "has_payload": True, "payload": "50494e4720c2a0"}, [55]),
            ("arp-srcip-only", False, ["arp", "--srcip", "10.55.0.77"], {"kind": "arp", "src_ip": "0a37004d"}, [0]),
            ("vpn-icmp", True, ["icmp", "--type", "13", "--payload", esc3],
             {"kind": "icmp", "typ": 13, "has_payload": True, "payload": pl3}, [0]),
            ("tcp-flags-srcip", False, ["tcp", "--flags", "ack", "-p", "25"] + E2E_OVR, dict({"kind": "tcp", "flags": 16}, **E2E_OVR_WANT), [25]),
            ("tcp-fin-srcip", False, ["tcp", "fin", "-p", "26"] + E2E_OVR, dict({"kind": "tcp", "flags": 1}, **E2E_OVR_WANT), [26]),
            ("tcp-null-srcip", False, ["tcp", "null", "-p", "27"] + E2E_OVR, dict({"kind": "tcp", "flags": 0}, **E2E_OVR_WANT), [27]),
            ("tcp-xmas-srcip", False, ["tcp", "xmas", "-p", "28"] + E2E_OVR, dict({"kind": "tcp", "flags": 41}, **E2E_OVR_WANT), [28]),
            ("vpn-tcp-srcip", True, ["tcp", "syn", "-p", "29", "--srcip", "10.9.8.7"], {"kind": "tcp", "flags": 2, "src_ip": "0a090807"}, [29]),
            ("vpn-udp-srcip", True, ["udp", "-p", "30", "--srcip", "10.9.8.7"], {"kind": "udp", "src_ip": "0a090807"}, [30]),
        ]
    return plan


def e2e(ctx, quick, only=None):
    """Run whole sx commands in a private network namespace -- on a veth pair (frames read on the peer) and on a tun
    device (no link header: the datagrams are read from the tun file descriptor) -- and return what appeared on the
    wire as observations of the same shape as the harness rows."""
    import subprocess
    if os.environ.get("VERIF_C05_NO_E2E"):
        ctx.skipped.append("e2e: switched off by VERIF_C05_NO_E2E")
        return []
    ns = "c05e%d" % os.getpid()
    work = ctx.work
    sx = os.path.join(work, "sx")
    rc, out = verif.sh(["go", "build", "-o", sx, "."], env=verif.GOENV, cwd=verif.REPO, timeout=1200)
    if rc != 0:
        ctx.broken.append(("correspondence: the sx binary does not build from the current tree", out[-1500:]))
        return []
    setup = [
        ["ip", "netns", "add", ns],
        ["ip", "-n", ns, "link", "add", "v0", "type", "veth", "peer", "name", "v1"],
        ["ip", "-n", ns, "link", "set", "v0", "address", "02:00:00:00:05:01"],
        ["ip", "-n", ns, "link", "set", "v1", "address", "02:00:00:00:05:02"],
        ["ip", "netns", "exec", ns, "sysctl", "-qw", "net.ipv6.conf.all.disable_ipv6=1",
         "net.ipv6.conf.default.disable_ipv6=1"],
        ["ip", "-n", ns, "link", "set", "lo", "up"], ["ip", "-n", ns, "link", "set", "v0", "up"],
        ["ip", "-n", ns, "link", "set", "v1", "up"], ["ip", "-n", ns, "addr", "add", "10.55.0.1/24", "dev", "v0"],
        ["ip", "-n", ns, "tuntap", "add", "dev", "tun5", "mode", "tun"], ["ip", "-n", ns, "link", "set", "tun5", "up"],
        ["ip", "-n", ns, "addr", "add", "10.56.0.1/24", "dev", "tun5"],
    ]
    rows = []
    try:
        for cmd in setup:
            rc, out = verif.sh(cmd, timeout=20)
            if rc != 0:
                ctx.skipped.append("e2e: cannot set up the network namespace (%s): %s" % (" ".join(cmd), out.strip()[:120]))
                return []
        empty = os.path.join(work, "empty-arp-cache")
        open(empty, "w").close()
        exe = os.path.join(verif.HBIN, "c05")
        for k, (name, vpn, args, want, ports) in enumerate(e2e_plan(quick)):
            if only is not None and name != only:
                continue
            env = E2E[vpn]
            cap = os.path.join(work, "cap_%s.jsonl" % name)
            capargs = ["-tun", "tun5"] if vpn else ["-capture", "v1", "-srcmac", want.get("src_mac", env["src_mac"])]
            p = subprocess.Popen(["ip", "netns", "exec", ns, exe] + capargs + ["-out", cap, "-count", str(len(ports)),
                                  "-timeout", "3s"], stdout=subprocess.PIPE, text=True, cwd=work)
            p.stdout.readline()          # "ready"
            link = [] if (vpn or args[0] == "arp") else ["--gwmac", "02:00:00:00:05:02", "-a", empty]
            nhead = 2 if args[0] == "tcp" and len(args) > 1 and args[1] in ("syn", "fin", "null", "xmas") else 1
            argv = [sx] + args[:nhead] + link + ["--iface", env["iface"], "--exit-delay", "50ms"] + args[nhead:] + [env["dst"]]
            rc, out = verif.sh(["ip", "netns", "exec", ns] + argv, timeout=60)
            try:
                p.wait(timeout=6)
            except subprocess.TimeoutExpired:
                p.kill()
            frames = ctx.read_jsonl(cap) if os.path.exists(cap) else []
            if rc != 0:
                ctx.broken.append(("correspondence: e2e command sx %s failed" % " ".join(argv[1:]), out[-600:]))
                continue
            if len(frames) != len(ports):
                ctx.findings.append({"key": "e2e:%s:frame-count" % name, "what": "sx %s: %d probe frames on the wire, %d "
                                     "requested" % (" ".join(args), len(frames), len(ports)),
                                     "replay": ctx.write_replay("e2e-" + name, {"property": "C05", "command": argv[1:],
                                                                                "frames": frames, "expected": len(ports)})})
            for fr in frames:
                f = bytes.fromhex(fr["frame"])
                o = {"i": 800000 + 100 * k + fr["n"], "class": "e2e-" + name, "via": "e2e", "vpn": vpn, "flags": 0, "ttl": -1,
                     "iplen": -1, "proto": -1, "ipflags": -1, "typ": -1, "code": -1, "has_payload": False, "payload": "",
                     "src_ip": env["src_ip"], "dst_ip": env["dst_ip"], "src_mac": env["src_mac"],
                     "dst_mac": "nil" if want["kind"] == "arp" else env["dst_mac"], "dport": 0, "seed": 0, "skip": 1,
                     "argv": argv[1:], "err": "", "frame": fr["frame"], "d_id": 0, "d_sport": 0, "d_seq": 0, "d_icmpid": 0,
                     "d_payload": ""}
                o.update(want)
                at = 22 if vpn else 36
                if want["kind"] in ("tcp", "udp") and len(f) >= at + 2:
                    dport = (f[at] << 8) | f[at + 1]
                    o["dport"] = dport if dport in ports else ports[0]
                rows.append(o)
    finally:
        verif.sh(["ip", "netns", "del", ns], timeout=20)
    return rows


def run(ctx):
    quick = ctx.tier == "quick"
    ctx.trusted += [
        "gopacket's serialisers (layers.Ethernet/IPv4/TCP/UDP/ICMPv4/ARP.SerializeTo, SerializeLayers) are modelled by "
        "hand in Model/Frames.v and tied byte-for-byte by differential testing, not verified",
        "math/rand: draws are universally quantified in the theorems (rand.Intn(n) = draw mod n); in the tie the "
        "spoofed fields are read back from the produced frame",
        "command/verif_export_c05.go (build tag verif) runs the real flag definitions and option plumbing",
    ]
    ctx.assumptions += ["requests as the pipeline builds them: 4-byte source address, destination address of 4 bytes or "
                        "the 16-byte form of an IPv4 address, 6-byte MACs (not read without link header)",
                        "payloads that fit an IPv4 datagram (28 + length <= 65535)"]
    gen_ok = ctx.gen()
    model_ok = gen_ok and ctx.coq_model(["Spec/C05.vo"])
    proof_ok = gen_ok and ctx.coq_proofs("Properties/C05.v")
    rows = []
    have_harness = ctx.harness_build("c05")
    if have_harness:
        rows = run_harness(ctx, "cases.jsonl", ["-seed", ctx.seed, "-n", 1100 if quick else 20000,
                                                "-maxpayload", 1472 if quick else 3000] + ([] if quick else ["-huge"]))
    if have_harness:
        cdir = os.path.join(verif.ROOT, "corpus", "C05")
        for i, name in enumerate(sorted(os.listdir(cdir)) if os.path.isdir(cdir) else []):
            if name.endswith(".json"):
                got = run_harness(ctx, "corpus_%d.jsonl" % i, ["-replay", os.path.join(cdir, name)])
                for o in got:
                    o["class"], o["i"] = "corpus", 900000 + i
                rows = got + rows
    if have_harness:
        # one shared filler per (kind, link mode) called from 8 goroutines at once: Fill must be re-entrant, the
        # commands hand one filler to all packet-generator workers. Failing frames + a sample come back as cases.
        conc = run_harness(ctx, "concurrent.jsonl", ["-seed", ctx.seed + 5, "-concurrent", CONC_QUICK if quick else CONC_THOROUGH])
        ctx.info.append("concurrent stage: %d Fill calls per shared filler (7 fillers, 8 goroutines); %d frames judged "
                        "by the oracle and the model, %d rejected by the pre-filter" % (
                            CONC_QUICK if quick else CONC_THOROUGH, len(conc),
                            sum(1 for o in conc if o.get("conc_bad"))))
        for o in conc:
            o["i"] += 700000
        rows = rows + conc
    if have_harness:
        # the real send path: multi generator (8 workers, pooled buffers) -> sender -> a writer that is busy with the
        # slice for 10 us and copies it at the end of the call; every written frame must be its request's frame
        sent = run_harness(ctx, "sendpath.jsonl", ["-seed", ctx.seed + 9, "-wire", WIRE_QUICK if quick else WIRE_THOROUGH])
        for o in sent:
            o["i"] += 600000
        ctx.info.append("send-path stage: %d requests per filler and link mode through NewPacketMultiGenerator + NewSender; "
                        "%d written frames judged by the oracle and the model" % (WIRE_QUICK if quick else WIRE_THOROUGH, len(sent)))
        rows = rows + sent
    if have_harness:
        try:
            wire = e2e(ctx, quick)
        except Exception as ex:      # environment trouble must not look like a property violation
            ctx.skipped.append("e2e: %r" % (ex,))
            wire = []
        ctx.info.append("e2e: %d frames of whole sx commands captured on a veth pair (link header) and a tun device (VPN mode), judged like single Fill calls and compared with the model" % len(wire))
        rows = rows + wire
    for o in rows:
        ctx.count(o["class"], distinct_key(o), nontrivial=nontrivial(o),
                  sample={"case": describe(o), "err": o["err"], "frame": o["frame"][:128]})
        why = spec_on_impl(o)
        if why:
            report(ctx, o, why)
    info100 = 0
    if model_ok and rows:
        info100 = evaluate(ctx, rows, 16 if quick else 64, "cases")
    if info100:
        ctx.info.append("%d cases: the code spends its random draws differently from the model (not an alarm: the "
                        "theorems quantify over all draws and the frame is compared for the spoofed fields it carries)"
                        % info100)
    if ((ctx.broken and not ctx.findings) or os.environ.get("VERIF_C05_FORCE_SEARCH")) and have_harness:
        # a proof or a tie broke: look harder for a concrete frame that violates the property
        more = run_harness(ctx, "search.jsonl", ["-seed", ctx.seed + 17, "-n", 6000 if quick else 60000,
                                                 "-maxpayload", 2000, "-hunt", 400000 if quick else 4000000])
        more += run_harness(ctx, "search_concurrent.jsonl", ["-seed", ctx.seed + 23, "-concurrent", 10 * CONC_QUICK])
        more += run_harness(ctx, "search_sendpath.jsonl", ["-seed", ctx.seed + 29, "-wire", 10 * WIRE_QUICK])
        seen = 0
        for o in more:
            why = spec_on_impl(o)
            if why:
                report(ctx, o, why)
                seen += 1
                if seen >= 3:
                    break
    # one finding per key is enough
    uniq, keys = [], set()
    for fd in ctx.findings:
        if fd["key"] not in keys:
            keys.add(fd["key"])
            uniq.append(fd)
    ctx.findings = uniq[:5]
    return ctx.finish(rule=RULE)


def replay(ctx, path):
    r = json.load(open(path))
    if "input" not in r:
        print(json.dumps(r, indent=1))
        return 1
    if not ctx.harness_build("c05"):
        return 1
    if r["input"].get("via") == "concurrent":
        # a frame produced while other goroutines used the same filler: run that shared filler again
        rows = run_harness(ctx, "replay_concurrent.jsonl", ["-seed", r["input"].get("seed", 1), "-concurrent",
                                                            max(10 * CONC_QUICK, r["input"].get("conc_n", 0)),
                                                            "-conc-only", r["input"]["conc"]])
        bad = [(o, spec_on_impl(o)) for o in rows if spec_on_impl(o)]
        print("replay: one %s filler shared by 8 goroutines, %d frames came back for judgement, %d violate the property"
              % (r["input"]["conc"], len(rows), len(bad)))
        for o, why in bad[:3]:
            print("replay verdict: %s: %s (frame=%s)" % (describe(o), why, o["frame"]))
        if not bad:
            print("replay verdict: property holds on every frame")
        return 1 if bad else 0
    if r["input"].get("via") == "wire":
        rows = run_harness(ctx, "replay_sendpath.jsonl", ["-seed", r["input"].get("seed", 1), "-wire",
                                                          max(10 * WIRE_QUICK, r["input"].get("conc_n", 0)),
                                                          "-conc-only", r["input"]["conc"]])
        bad = [(o, spec_on_impl(o)) for o in rows if spec_on_impl(o)]
        print("replay: %s filler behind the real multi generator + sender, %d frames came back for judgement, %d violate "
              "the property" % (r["input"]["conc"], len(rows), len(bad)))
        for o, why in bad[:3]:
            print("replay verdict: %s: %s (frame=%s)" % (describe(o), why, o["frame"]))
        if not bad:
            print("replay verdict: property holds on every frame")
        return 1 if bad else 0
    if r["input"].get("via") == "e2e":
        # a frame of a whole command: run that command again on a fresh virtual wire
        name = r["input"]["class"][len("e2e-"):]
        rows = e2e(ctx, False, only=name)
        if not rows:
            print("replay: no frame captured (%s)" % "; ".join(ctx.skipped + [w for w, _ in ctx.broken]))
            return 1
        bad = 0
        for o in rows:
            why = spec_on_impl(o)
            print("replay sx %s: frame=%s" % (" ".join(o["argv"]), o["frame"]))
            print("replay verdict: %s" % (why or "property holds on this frame"))
            bad += 1 if why else 0
        return 1 if bad else 0
    ok, out = ctx.harness_run("c05", ["-out", "one.jsonl", "-replay", os.path.abspath(path)], timeout=300)
    if not ok:
        print(out)
        return 1
    o = ctx.read_jsonl(os.path.join(ctx.work, "one.jsonl"))[0]
    why = spec_on_impl(o)
    print("replay %s: frame=%s err=%s" % (describe(o), o["frame"], o["err"] or "none"))
    print("replay verdict: %s" % (why or "property holds on this input"))
    return 1 if why else 0


MANIFEST = {
    "technique": "Coq proof (independent RFC decoder applied to an executable model of the four frame builders; "
                 "ones'-complement checksum lemma for all lengths; finite sweep of the 512 flag sets) + translated "
                 "constants/wiring + byte-for-byte differential correspondence",
    "level_text": "Theorems C05_* hold for all flag sets, requests, option values, payloads and random draws over the "
                  "constants regenerated from the fillers on every run; the model is compared byte for byte with the "
                  "real Fill on all 512 flag sets, payload length sweeps, overrides, CLI plumbing and malformed requests.",
    "level_note": "Trusted: Coq kernel + VM, tools/gen constant transcription, harness comparison. gopacket's "
                  "serialisers are modelled by hand (tied byte-exactly), not verified. No axioms.",
    "design_ref": "DESIGN.md section 5 (C05)",
}
