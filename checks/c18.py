"""C18 -- option parsing is total, and exact on everything it accepts."""
import fcntl
import json
import os
import re
import shutil
from fractions import Fraction

import verif

RULE = ("per parser (port range, port list, ports file, rate limit, payload, IP flags, TCP flags, exclusion file): "
        "canonical renderings of generated values (every subset of the 9 TCP and 3 IP flags in random order and "
        "letter case; port lists; rates with every unit; hex-escaped and literal payloads; files with comments, "
        "blanks, CRLF), a fixed list of near-misses (empty, signs, spaces, repeated separators, 65536, huge numbers, "
        "unicode digits, NUL, lines around the 64 KiB scanner limit, ill-formed UTF-8) and strings drawn from a small "
        "alphabet; non-trivial = accepted input; distinct by (parser, input). Option plumbing (stage optcombo): every "
        "command that accepts both -p/--ports and --ports-file (tcp, tcp syn/fin/null/xmas, udp, socks, docker, elastic) "
        "is given a generated port list TOGETHER with a generated ports file (with ranges, only comments, empty, one bad "
        "line; every spelling and order of the two options) on its own flag set, its own parseRawOptions runs, and the "
        "port ranges it would scan must be exactly the ranges written in the list followed by those written in the file")

KINDS = {"portrange": 1, "portranges": 2, "portsfile": 3, "rate": 4, "payload": 5, "ipflags": 6, "tcpflags": 7,
         "exclude": 8}
CODES = {1: "accepted/rejected differs from the model", 2: "returned value differs from the model",
         3: "validatePorts verdict differs from the model", 4: "harness did not consult ip.ParseIPNet for a line the model reads",
         5: "flag bits on the wire differ from the model", 90: "(info) exclusion entry that is not an IPv4 network"}
# classes whose inputs are canonical renderings: they must be accepted and give the rendered value back
CANONICAL = {"canonical", "count-only", "bare-unit", "count-unit", "multi-component", "hex-escape", "printable-ascii",
             "subset", "with-repeats", "empty-file"}

TCP_BITS = {b"fin": 1, b"syn": 2, b"rst": 4, b"psh": 8, b"ack": 16, b"urg": 32, b"ece": 64, b"cwr": 128, b"ns": 256}
IP_BITS = {b"mf": 1, b"df": 2, b"evil": 4}          # RFC 791 / RFC 3514, as a 3-bit number (reserved bit first)
UNITS = {b"ns": 1, b"us": 10 ** 3, "µs".encode(): 10 ** 3, "μs".encode(): 10 ** 3, b"ms": 10 ** 6,
         b"s": 10 ** 9, b"m": 60 * 10 ** 9, b"h": 3600 * 10 ** 9}


# ---------------------------------------------------------------- what a string denotes (independent of the model)

def denote_range(s):
    m = re.fullmatch(rb"([0-9]+)(?:-([0-9]+))?", s)
    if not m or any(len(g.lstrip(b"0")) > 5 for g in m.groups() if g is not None):
        return None
    a = int(m.group(1))
    b = int(m.group(2)) if m.group(2) is not None else a
    if a > 65535 or b > 65535:
        return None
    return [a, b]


def denote_ranges(s):
    out = []
    for p in s.split(b","):
        d = denote_range(p)
        if d is None:
            return None
        out += d
    return out


def file_lines(data):
    """every line of the file, however long, without its line terminator"""
    lines = data.split(b"\n")
    if lines and lines[-1] == b"":
        lines.pop()
    res = []
    for l in lines:
        if l.endswith(b"\r"):
            l = l[:-1]
        i = l.find(b"#")
        if i >= 0:
            l = l[:i]
        l = l.strip(b" ")
        if l:
            res.append(l)
    return res


def denote_ports_file(data):
    out = []
    for l in file_lines(data):
        d = denote_range(l)
        if d is None:
            return None
        out += d
    return out


def denote_duration(w):
    """(value in ns as Fraction, has_fraction) or None; Go duration syntax"""
    m = re.fullmatch(rb"([+-]?)(.*)", w, re.S)
    neg, body = m.group(1) == b"-", m.group(2)
    if body == b"0":
        return Fraction(0), False
    if body == b"":
        return None
    total, frac, pos = Fraction(0), False, 0
    comp = re.compile(rb"([0-9]*)(?:\.([0-9]*))?([^0-9.]+)", re.S)
    while pos < len(body):
        m = comp.match(body, pos)
        if not m:
            return None
        ip, fp, unit = m.group(1), m.group(2), m.group(3)
        if ip == b"" and (fp is None or fp == b""):
            return None
        if unit not in UNITS:
            return None
        if len(ip) > 40 or (fp is not None and len(fp) > 200):
            return None
        v = Fraction(int(ip or b"0"))
        if fp:
            v += Fraction(int(fp), 10 ** len(fp))
            if int(fp) != 0:
                frac = True
        total += v * UNITS[unit]
        pos = m.end()
    return (-total if neg else total), frac


def denote_rate(s):
    """('ok', count, window Fraction, has_fraction) | ('no',) does not denote a rate | ('?',) no opinion"""
    parts = s.split(b"/")
    if len(parts) > 2:
        return ("no",)
    m = re.fullmatch(rb"([+-]?)([0-9]+)", parts[0])
    if not m:
        return ("no",)
    if len(m.group(2).lstrip(b"0")) > 10:
        return ("no",)
    cnt = int(m.group(2))
    if m.group(1) == b"-" and cnt != 0:
        return ("no",)
    if cnt >= 2 ** 31:
        return ("no",)
    if len(parts) == 1:
        return ("ok", cnt, Fraction(10 ** 9), False)
    w = parts[1]
    if w and not (48 <= w[0] <= 57) and w[0:1] not in (b".",):
        w = b"1" + w            # a window that starts with a unit has an implicit leading 1
    d = denote_duration(w)
    if d is None:
        return ("no",)
    val, frac = d
    if val < 0:
        return ("no",)
    if val > 2 ** 63 - 1:
        return ("?",)           # overflow region: time.ParseDuration's own limits decide (library behaviour)
    return ("ok", cnt, val, frac)


def denote_payload(s):
    try:
        s.decode("utf-8")
    except UnicodeDecodeError:
        return None
    out, i = bytearray(), 0
    simple = {0x61: 7, 0x62: 8, 0x66: 12, 0x6e: 10, 0x72: 13, 0x74: 9, 0x76: 11, 0x5c: 0x5c, 0x22: 0x22}
    while i < len(s):
        c = s[i]
        if c in (0x22, 0x0a):
            return None
        if c != 0x5c:
            out.append(c)
            i += 1
            continue
        if i + 1 >= len(s):
            return None
        e = s[i + 1]
        i += 2
        if e in simple:
            out.append(simple[e])
        elif e in (0x78, 0x75, 0x55):
            n = {0x78: 2, 0x75: 4, 0x55: 8}[e]
            h = s[i:i + n]
            if len(h) != n or not re.fullmatch(rb"[0-9a-fA-F]+", h):
                return None
            v = int(h, 16)
            i += n
            if e == 0x78:
                out.append(v)
            else:
                if v > 0x10FFFF or 0xD800 <= v <= 0xDFFF:
                    return None
                out += chr(v).encode("utf-8")
        elif 0x30 <= e <= 0x37:
            h = s[i - 1:i + 2]
            if len(h) != 3 or not re.fullmatch(rb"[0-7]{3}", h):
                return None
            v = int(h, 8)
            if v > 255:
                return None
            out.append(v)
            i += 2
        else:
            return None
    return bytes(out)


def fold_case(p):
    """lower case as Go's strings.ToLower sees it, as far as ASCII names are concerned"""
    p = p.replace(b"\xc4\xb0", b"i").replace(b"\xe2\x84\xaa", b"k")
    return bytes(c + 32 if 65 <= c <= 90 else c for c in p)


def denote_flags(s, table):
    if s == b"":
        return []
    names = []
    for p in s.split(b","):
        n = fold_case(p)
        if n not in table:
            return None
        names.append(n)
    return names


def denote_exclude(o, data):
    orc = {bytes.fromhex(e["tok"]): e for e in o.get("oracle") or []}
    nets = []
    for l in file_lines(data):
        e = orc.get(l)
        if e is None or (e["ok"] and e["ip"] < 0):
            return "?"
        if not e["ok"]:
            return None
        nets.append((e["ip"], e["ones"]))
    return nets


def spec_on_impl(o):
    """The property judged on the implementation's observation alone: None, or (key, reason)."""
    kind, cls = o["kind"], o["class"]
    s = bytes.fromhex(o["in"])
    if kind == "libfact":
        return None
    if o.get("panic"):
        return (kind + ":panic", "the parser crashed: %s" % o["panic"])
    nums = o.get("nums") or []
    must = o.get("has_want") and cls in CANONICAL
    shown = repr(s[:60]) + ("..." if len(s) > 60 else "")
    if kind in ("portrange", "portranges", "portsfile"):
        d = {"portrange": denote_range, "portranges": denote_ranges, "portsfile": denote_ports_file}[kind](s)
        if o["ok"]:
            if d is None or d != nums:
                key = kind + ":accepts-undenoted"
                if kind == "portsfile" and any(len(l) >= 65536 for l in s.split(b"\n")):
                    key = "portsfile:long-line-truncates"
                elif any(p.count(b"-") >= 2 for p in re.split(rb"[,\n]", s)):
                    key = "portrange:extra-parts"
                pairs = list(zip(nums[0::2], nums[1::2]))
                return (key, "%s %s is accepted as %s but denotes %s" % (kind, shown, pairs[:8],
                                                                        "nothing" if d is None else list(zip(d[0::2], d[1::2]))[:8]))
            want_v = 1 if (d and all(a <= b for a, b in zip(d[0::2], d[1::2]))) else 0
            if o["vok"] != -1 and o["vok"] != want_v:
                return (kind + ":validate", "validatePorts says %d for %s" % (o["vok"], shown))
        elif must and d is not None:
            return (kind + ":rejects-canonical", "the canonical rendering %s is rejected" % shown)
        if must and o["ok"] and list(o.get("want_nums") or []) != nums:
            return (kind + ":roundtrip", "the rendering %s of %s parses to %s" % (shown, (o.get("want_nums") or [])[:8], nums[:8]))
        return None
    if kind == "rate":
        d = denote_rate(s)
        if o["ok"]:
            if d[0] == "?":
                return None
            if d[0] == "no":
                return ("rate:dot-window" if b"/." in s else "rate:accepts-undenoted", "rate %s is accepted as %s but denotes nothing" % (shown, nums))
            _, cnt, win, frac = d
            exact = win.numerator // win.denominator
            okw = (nums[1] == exact) if not frac else abs(nums[1] - exact) <= 1
            if nums[0] != cnt or not okw:
                key = "rate:dot-window" if b"/." in s else "rate:value"
                return (key, "rate %s is accepted as %d per %d ns but denotes %d per %s ns" % (shown, nums[0], nums[1], cnt, exact))
        elif must and d[0] == "ok":
            return ("rate:rejects-canonical", "the canonical rendering %s is rejected" % shown)
        if must and o["ok"] and list(o.get("want_nums") or []) != nums:
            return ("rate:roundtrip", "the rendering %s of %s parses to %s" % (shown, o.get("want_nums"), nums))
        return None
    if kind == "payload":
        d = denote_payload(s)
        got = bytes.fromhex(o.get("out") or "")
        if o["ok"]:
            if d is None or d != got:
                key = "payload:value"
                try:
                    s.decode("utf-8")
                except UnicodeDecodeError:
                    key = "payload:invalid-utf8"
                return (key, "payload %s is accepted as %s but denotes %s" % (shown, got[:40].hex(), "nothing" if d is None else d[:40].hex()))
        elif must and d is not None:
            return ("payload:rejects-canonical", "the canonical rendering %s is rejected" % shown)
        if must and o["ok"] and bytes.fromhex(o.get("want_out") or "") != got:
            return ("payload:roundtrip", "the rendering %s parses to %s" % (shown, got[:40].hex()))
        return None
    if kind in ("tcpflags", "ipflags"):
        table = TCP_BITS if kind == "tcpflags" else IP_BITS
        d = denote_flags(s, table)
        if o["ok"]:
            if d is None:
                return (kind + ":accepts-undenoted", "%s %s is accepted but names no flag set" % (kind, shown))
            bits = 0
            for n in d:
                bits |= table[n]
            if kind == "tcpflags":
                got_names = bytes.fromhex(o.get("out") or "").split(b",") if nums[0] else []
                if got_names != d or nums[1] != bits:
                    return ("tcpflags:bits", "flags %s give names %s and header bits %#x, the named flags are %s = %#x" % (
                        shown, [g.decode("latin1") for g in got_names], nums[1], [n.decode() for n in d], bits))
            else:
                if nums[0] != bits or nums[1] != bits:
                    return ("ipflags:bits", "flags %s give value %d and header bits %d, the named flags are %s = %d" % (
                        shown, nums[0], nums[1], [n.decode() for n in d], bits))
        elif must and d is not None:
            return (kind + ":rejects-canonical", "the canonical rendering %s is rejected" % shown)
        return None
    if kind == "exclude":
        d = denote_exclude(o, s)
        if d == "?":
            return None
        if o["ok"]:
            if d is None:
                return ("exclude:accepts-undenoted", "exclusion file %s is accepted although a line is not a network" % shown)
            want = []
            for p in o.get("probes") or []:
                want.append(1 if any((p >> (32 - ones)) == (ip >> (32 - ones)) for ip, ones in d) else 0)
            if want != nums:
                key = "exclude:long-line-truncates" if any(len(l) >= 65536 for l in s.split(b"\n")) else "exclude:value"
                i = next(i for i in range(len(want)) if i >= len(nums) or want[i] != nums[i])
                p = o["probes"][i]
                return (key, "exclusion file %s: address %d.%d.%d.%d is %s but the file %s it" % (
                    shown, p >> 24, (p >> 16) & 255, (p >> 8) & 255, p & 255,
                    "excluded" if nums[i:i + 1] == [1] else "not excluded", "excludes" if want[i] else "does not exclude"))
        return None
    return None


# ---------------------------------------------------------------- model evaluation

def case_term(o):
    z = verif.coq_z
    orc = "[" + "; ".join("(%s, (%s, (%s, %s)))" % (verif.coq_packed(bytes.fromhex(e["tok"])), verif.coq_bool(e["ok"]),
                                                    z(e["ip"]), z(e["ones"])) for e in (o.get("oracle") or [])) + "]"
    return ("{| ckind := %d; cin := %s; cok := %s; cnums := %s; cout := %s; cvok := %s; coracle := %s; cprobes := %s |}" % (
        KINDS[o["kind"]], verif.coq_packed(bytes.fromhex(o["in"])), verif.coq_bool(o["ok"]),
        verif.coq_list([z(x) for x in (o.get("nums") or [])]), verif.coq_packed(bytes.fromhex(o.get("out") or "")),
        z(o["vok"]), orc, verif.coq_list([z(x) for x in (o.get("probes") or [])])))


def case_file(rows):
    body = ["From Coq Require Import ZArith List Uint63.", "From SX Require Import Base.Bytes Spec.C18.",
            "Import ListNotations.", "Open Scope Z_scope.",
            "Definition cases : list case := ["]
    body.append(";\n".join(case_term(o) for o in rows))
    body.append("].")
    body.append("Definition M := Eval vm_compute in check_all 0 cases.")
    body.append("Definition L := Eval vm_compute in length cases.")
    body.append("Print M. Print L.")
    return "\n".join(body)


def parse_eval(ctx, out, nrows):
    m = ctx.parse_result(out, "M")
    n_model = int(ctx.parse_result(out, "L"))
    if n_model != nrows:
        raise verif.Broken("case count differs between harness and model (%d vs %d)" % (nrows, n_model))
    res = []
    if m.strip() not in ("[]", "nil"):
        for idx, codes in re.findall(r"\((\d+), \[([^\]]*)\]\)", m):
            res.append((int(idx), [int(c.strip().strip("()")) for c in codes.split(";") if c.strip()]))
        if not res:
            raise verif.Broken("cannot parse mismatch list", m[:500])
    return res


def report(ctx, o, key, why, seen):
    if seen.get(key, 0) >= 1:
        seen[key] += 1
        return
    seen[key] = 1
    tag = re.sub(r"\W", "-", key)
    path = ctx.write_replay(tag, {
        "property": "C18", "what": why, "key": key,
        "input": {"kind": o["kind"], "hex": o["in"], "text": bytes.fromhex(o["in"])[:200].decode("latin1")},
        "observed": {k: o.get(k) for k in ("ok", "nums", "out", "vok", "panic")},
        "replay_cmd": "bin/check C18 --replay <this file>"})
    ctx.findings.append({"key": key, "what": why, "replay": path})


def judge_rows(ctx, rows, seen, count=True):
    for o in rows:
        if o["kind"] == "libfact":
            if (o.get("nums") or []) != [0x130, 0x69, 0x212A, 0x6B]:
                ctx.broken.append(("correspondence: unicode.ToLower maps other non-ASCII runes to ASCII than U+0130 and "
                                   "U+212A, the model of strings.ToLower is incomplete", json.dumps(o)[:300]))
            continue
        if count:
            ctx.count(o["kind"] + "/" + o["class"], (o["kind"], o["in"]), nontrivial=bool(o["ok"]),
                      sample={"parser": o["kind"], "class": o["class"], "input": bytes.fromhex(o["in"])[:48].decode("latin1"),
                              "accepted": o["ok"], "nums": (o.get("nums") or [])[:6], "out": (o.get("out") or "")[:32]})
        r = spec_on_impl(o)
        if r:
            report(ctx, o, r[0], r[1], seen)



# ---------------------------------------------------------------- stage optcombo: -p together with --ports-file

OPT_HOOK = "verif_export_c18opts.go"


def build_opts(ctx):
    """harness_build for cmd/c18opts; the add-only hook command/verif_export_c18opts.go is laid over the tree
    under test with go build -overlay as long as that tree does not carry it itself (nothing is written to the tree)"""
    hdir = os.path.join(verif.ROOT, "harness")
    os.makedirs(verif.HBIN, exist_ok=True)
    with open(os.path.join(hdir, ".build.lock"), "w") as lk:
        fcntl.flock(lk, fcntl.LOCK_EX)
        cmd = ["go", "build", "-tags", "verif"]
        if verif.REPO == "/repo":
            shutil.copyfile(os.path.join(verif.REPO, "go.sum"), os.path.join(hdir, "go.sum"))
        else:
            tag = re.sub(r"\W", "_", verif.REPO)
            alt = os.path.join(hdir, "go.%s.mod" % tag)
            with open(alt, "w") as f:
                f.write(open(os.path.join(hdir, "go.mod")).read().replace("=> /repo", "=> " + verif.REPO))
            shutil.copyfile(os.path.join(verif.REPO, "go.sum"), alt[:-4] + ".sum")
            cmd += ["-modfile", alt]
        dst = os.path.join(os.path.realpath(verif.REPO), "command", OPT_HOOK)
        if not os.path.exists(dst):
            ov = os.path.join(ctx.work, "overlay-c18opts.json")
            with open(ov, "w") as f:
                json.dump({"Replace": {dst: os.path.join(verif.ROOT, "fixes", "c18", "hooks", "command", OPT_HOOK)}}, f)
            cmd += ["-overlay", ov]
        rc, out = verif.sh(cmd + ["-o", os.path.join(verif.HBIN, "c18opts"), "./cmd/c18opts"], env=verif.GOENV, cwd=hdir,
                           timeout=1200)
    if rc != 0:
        ctx.broken.append(("correspondence: harness c18opts does not build against the current tree", out[-3000:]))
        return False
    return True


def pairs(nums):
    return list(zip(nums[0::2], nums[1::2]))


def spec_on_combo(o):
    """The property on one command line: the ports a command takes from -p LIST --ports-file FILE are exactly the
    ranges written in LIST followed by the ranges written in FILE (either text denoting nothing -> an error)."""
    lst, data = bytes.fromhex(o["list"]), bytes.fromhex(o["file"])
    what = "%s %s (ports file = %r)" % (o["cmd"], " ".join(o["argv"]), data[:80].decode("latin1"))
    if o.get("panic"):
        return ("optcombo:panic", "option parsing of %s crashed: %s" % (what, o["panic"]))
    dl = denote_ranges(lst) if o["has_list"] else []
    df = denote_ports_file(data) if o["has_file"] else []
    want = None if dl is None or df is None else dl + df
    if o["ok"]:
        if want != o["nums"]:
            key = "optcombo:" + ("list-and-file" if o["has_list"] and o["has_file"] else "single-option")
            return (key, "%s is accepted and the command scans %s, but the list denotes %s and the file denotes %s" % (
                what, pairs(o["nums"])[:10], "nothing" if dl is None else pairs(dl)[:10],
                "nothing" if df is None else pairs(df)[:10]))
    elif want is not None and o["class"] in ("list+file", "list+comment-only-file", "list+empty-file", "list-only", "file-only"):
        return ("optcombo:rejects-canonical", "%s is rejected although list and file are canonical" % what)
    return None


def report_combo(ctx, o, key, why, seen):
    if seen.get(key, 0) >= 1:
        seen[key] += 1
        return
    seen[key] = 1
    path = ctx.write_replay(re.sub(r"\W", "-", key), {
        "property": "C18", "what": why, "key": key,
        "input": {"kind": "optcombo", "cmd": o["cmd"], "has_list": o["has_list"], "has_file": o["has_file"],
                  "list": o["list"], "file": o["file"], "mode": o["mode"], "argv": o["argv"],
                  "list_text": bytes.fromhex(o["list"]).decode("latin1"),
                  "file_text": bytes.fromhex(o["file"])[:400].decode("latin1")},
        "observed": {k: o.get(k) for k in ("ok", "nums", "panic")},
        "replay_cmd": "bin/check C18 --replay <this file>"})
    ctx.findings.append({"key": key, "what": why, "replay": path})


def stage_optcombo(ctx, seen):
    if not build_opts(ctx):
        return
    ok, _ = ctx.harness_run("c18opts", ["-out", "optcombo.jsonl", "-seed", ctx.seed, "-n", 3 if ctx.tier == "quick" else 200],
                            timeout=900)
    if not ok:
        return
    rows = ctx.read_jsonl(os.path.join(ctx.work, "optcombo.jsonl"))
    cmds = set()
    for o in rows:
        cmds.add(o["cmd"])
        ctx.count("optcombo/" + o["class"], ("optcombo", o["cmd"], o["list"], o["file"], o["has_list"], o["has_file"], o["mode"]),
                  nontrivial=bool(o["ok"]) and o["has_list"] and o["has_file"],
                  sample={"parser": "optcombo", "class": o["class"], "cmd": o["cmd"], "argv": o["argv"][:4],
                          "file": bytes.fromhex(o["file"])[:48].decode("latin1"), "accepted": o["ok"], "nums": o["nums"][:8]})
        r = spec_on_combo(o)
        if r:
            report_combo(ctx, o, r[0], r[1], seen)
    need = {"tcp", "tcp syn", "tcp fin", "tcp null", "tcp xmas", "udp", "socks", "docker", "elastic"}
    if not need <= cmds:
        ctx.broken.append(("correspondence: stage optcombo did not reach the commands %s" % sorted(need - cmds), ""))


def run(ctx):
    quick = ctx.tier == "quick"
    ctx.trusted += [
        "Go standard library, modelled by hand and tied by differential testing only: strings.Split/Index/Trim/ToLower, "
        "strconv.ParseUint/ParseInt/Unquote, unicode/utf8, time.ParseDuration (incl. IEEE-754 binary64 through Coq's "
        "SpecFloat), bufio.Scanner with ScanLines and its 64 KiB token limit",
        "ip.ParseIPNet (net.ParseCIDR/ParseIP) is an oracle input of the exclusion-file model; cidranger = set of networks",
        "gopacket serialisation of layers.TCP / layers.IPv4 flag fields (field -> header bit), observed on the wire by the harness",
        "command/verif_export_c18.go and command/verif_export_c18opts.go wrappers (build tag verif; the latter is laid "
        "over the tree with go build -overlay while the tree does not carry it)",
        "the window of a rate is exact relative to time.ParseDuration's reading of the written window text",
    ]
    ctx.assumptions += ["64-bit platform (int is 64 bits wide in parseRateLimit)",
                        "files are read through bufio.Scanner from a reader that returns data or an error"]
    gen_ok = ctx.gen()
    model_ok = gen_ok and ctx.coq_model(["Spec/C18.vo"])
    proof_ok = gen_ok and ctx.coq_proofs("Properties/C18.v")
    rows, seen = [], {}
    built = ctx.harness_build("c18")
    if built:
        n = 400 if quick else 6000
        ok, _ = ctx.harness_run("c18", ["-out", "cases.jsonl", "-seed", ctx.seed, "-n", n, "-long", 6 if quick else 24],
                                timeout=1500)
        if ok:
            rows = ctx.read_jsonl(os.path.join(ctx.work, "cases.jsonl"))
    # corpus of minimised regression inputs first
    cdir = os.path.join(verif.ROOT, "corpus", "C18")
    if built and os.path.isdir(cdir):
        lines = []
        for fn in sorted(os.listdir(cdir)):
            if fn.endswith(".json"):
                c = json.load(open(os.path.join(cdir, fn)))
                for e in c.get("inputs", []):
                    lines.append("%s:%s" % (e["kind"], e["hex"]))
        if lines:
            with open(os.path.join(ctx.work, "corpus.txt"), "w") as f:
                f.write("\n".join(lines) + "\n")
            ok, _ = ctx.harness_run("c18", ["-out", "corpus.jsonl", "-list", "corpus.txt"], timeout=600)
            if ok:
                rows = ctx.read_jsonl(os.path.join(ctx.work, "corpus.jsonl")) + rows
    judge_rows(ctx, rows, seen)
    stage_optcombo(ctx, seen)
    cases = [o for o in rows if o["kind"] in KINDS]
    if model_ok and cases:
        nshards = 16 if quick else 64
        parts = [cases[i::nshards] for i in range(nshards)]
        parts = [p for p in parts if p]
        outs = ctx.coq_eval_many([("cases_%d" % i, case_file(p)) for i, p in enumerate(parts)])
        nbad = 0
        for part, out in zip(parts, outs):
            for idx, codes in parse_eval(ctx, out, len(part)):
                o = part[idx]
                hard = [c for c in codes if c != 90]
                if hard:
                    nbad += 1
                    if nbad <= 8:
                        ctx.broken.append(("correspondence: %s %r: %s" % (
                            o["kind"], bytes.fromhex(o["in"])[:60].decode("latin1"), "; ".join(CODES[c] for c in hard)),
                            json.dumps({k: o.get(k) for k in ("kind", "class", "in", "ok", "nums", "out", "vok")})[:600]))
            ctx.cov["traces_validated_against_impl"] += len(part)
        if nbad > 8:
            ctx.info.append("%d cases disagree with the model in total" % nbad)
    if ctx.broken and not ctx.findings and built:
        # a proof or tie broke: look harder for an input on which the real parsers violate the property
        for extra in range(1, 4):
            ok, _ = ctx.harness_run("c18", ["-out", "search.jsonl", "-seed", ctx.seed * 1000 + extra, "-n",
                                            3000 if quick else 20000, "-long", 6], timeout=1500)
            if ok:
                judge_rows(ctx, ctx.read_jsonl(os.path.join(ctx.work, "search.jsonl")), seen, count=False)
            if ctx.findings:
                break
    for k, v in seen.items():
        if v > 1:
            ctx.info.append("%d inputs fail in class %s (one replay file written)" % (v, k))
    return ctx.finish(rule=RULE)


def replay(ctx, path):
    r = json.load(open(path))
    if "input" not in r:
        print(json.dumps(r, indent=1))
        return 1
    i = r["input"]
    if i.get("kind") == "optcombo":
        if not build_opts(ctx):
            return 1
        q = {k: i[k] for k in ("cmd", "has_list", "has_file", "list", "file", "mode")}
        ok, _ = ctx.harness_run("c18opts", ["-out", "one.jsonl", "-one", json.dumps(q)], timeout=600)
        if not ok:
            return 1
        o = ctx.read_jsonl(os.path.join(ctx.work, "one.jsonl"))[0]
        o["class"] = "list+file"
        why = spec_on_combo(o)
        print("replay %s %s: %s" % (o["cmd"], " ".join(o["argv"]), why[1] if why else
                                    "property holds on this input (the command scans %s)" % pairs(o["nums"])))
        return 1 if why else 0
    if not ctx.harness_build("c18"):
        return 1
    ok, _ = ctx.harness_run("c18", ["-out", "one.jsonl", "-one", "%s:%s" % (i["kind"], i["hex"])], timeout=600)
    if not ok:
        return 1
    o = ctx.read_jsonl(os.path.join(ctx.work, "one.jsonl"))[0]
    o["class"] = "replay"
    why = spec_on_impl(o)
    print("replay %s %r: %s" % (i["kind"], bytes.fromhex(i["hex"])[:80], why[1] if why else "property holds on this input"))
    return 1 if why else 0


MANIFEST = {
    "technique": "Coq proof (exactness and round-trip theorems by induction over strings/lists; finite flag sweeps by "
                 "vm_compute over tables translated from the Go AST) + differential correspondence incl. fuzz-with-recover",
    "level_text": "Theorems over the executable model of the eight parsers: an accepted port range/list/file, rate, flag "
                  "list or payload has exactly the value written; canonical renderings of every value parse back; the "
                  "flag tables regenerated from command/tcp.go, pkg/scan/tcp/tcp.go and config.go set exactly the RFC bits. "
                  "The model is compared with the real parsers (and the flag bits with the serialised headers) on generated "
                  "canonical, near-miss and random inputs; every call runs under recover.",
    "level_note": "Trusted: Coq kernel + VM, tools/gen transcription, Go library functions modelled by hand (strconv, "
                  "strings, utf8, time.ParseDuration with SpecFloat binary64, bufio.Scanner), ip.ParseIPNet as an oracle. "
                  "No axioms. Totality of the real code is by fuzzing with recover, not by proof.",
    "design_ref": "DESIGN.md section 5 (C18)",
}
