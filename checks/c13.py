"""C13 -- bad target-list entries become one faithful error each, never a probe."""
import json
import os
import sys

import verif
from checks import tgtlib as T

RULE = ("target files of 1..40 lines: valid entries in several spellings (key order, extra members, IPv4-mapped and IPv6 "
        "addresses, CRLF, duplicate keys, escapes) with 0..4 bad lines at random positions (no ip, no port, null members, "
        "empty object, bad address, port 0/65536/negative/huge, wrong member types, invalid JSON, blank, line > 64 KiB); "
        "commands tcp / udp / socks-docker-elastic / icmp; modes pairs, addresses x 1..3 port ranges, port-less; source regular "
        "file, stdin, missing file; --exclude on/off; ARP cache on/off with and without gateway MAC; plus request streams "
        "that already carry errors through filter/cache in all four stackings; bursts of 230..380 bad entries in a row through the "
        "real GenericEngine and PacketEngine with an error consumer that starts 300..500 ms late; 120..260 bad entries at the END "
        "of the file through the real startScanEngine with an exit delay of 0..5 ms; non-trivial = at least one bad entry or "
        "error request reached; distinct by case seed")

CODES = {1: "error return of GenerateRequests differs from the model", 2: "request sequence differs from the model",
         3: "the output channel was not closed", 11: "decorators: error return differs", 12: "decorators: request sequence "
         "differs from the model", 13: "decorators: the output channel was not closed"}


def decode_lines(b):
    out, i = [], 0
    while i < len(b):
        k = b[i]
        i += 1
        if k == 0:
            out.append(("bad",))
            continue
        if k == 1:
            out.append(("toolong",))
            continue
        ipf = b[i]
        i += 1
        ip = None
        if ipf == 2:
            n = b[i]
            ip = bytes(b[i + 1:i + 1 + n])
            i += 1 + n
        portf = b[i]
        i += 1
        port = None
        if portf == 1:
            v = int.from_bytes(b[i + 1:i + 9], "big")
            port = -v if b[i] == 1 else v
            i += 9
        out.append(("json", ipf, ip, port))
    return out


def entry(line, mode):
    """what an entry is: ('bad', cause class) or ('good', ip, port or None)"""
    if line[0] == "bad":
        return ("bad", 5)
    if line[0] == "toolong":
        return ("bad", 6)
    _, ipf, ip, port = line
    if ipf != 2:
        return ("bad", 3)
    if mode == 0:
        if port is None or not (0 < port <= 65535):
            return ("bad", 4)
        return ("good", ip, port)
    return ("good", ip, None)


def expect_good(o, cache, ip, port):
    """None (excluded) or ('probe', ip, port, mac) or ('err', 12)"""
    if o["filter"] and T.covered_nets(o["nets"], ip):
        return None
    if o["cache"]:
        table, gw = cache
        mac = table.get(T.ip_key(ip)) or gw
        if not mac:
            return ("err", 12)
        return ("probe", ip, port, mac)
    return ("probe", ip, port, b"")


def judge_passes(o, entries, outs, cache, nports):
    """Can [outs] be explained as nports passes (1 for pairs / port-less) over the entries, each pass stopping at a
    bad entry or continuing after it?  Returns (ok, message, pass ports)."""
    mode = o["mode"]
    best = [0, "output ends early"]
    sys.setrecursionlimit(10000)

    def fail(oi, msg):
        if oi >= best[0]:
            best[0], best[1] = oi, msg
        return None

    def go(pi, li, oi, port, ports):
        # pi: passes completed so far; li: next entry of the current pass; port: port of the current pass
        if li == len(entries):
            return next_pass(pi, oi, port, ports)
        e = entries[li]
        if e[0] == "good":
            want_port = e[2] if mode == 0 else port
            ex = expect_good(o, cache, e[1], want_port)
            if ex is None:
                return go(pi, li + 1, oi, port, ports)
            if oi >= len(outs):
                return fail(oi, "entry %d (%s) produces nothing" % (li + 1, T.ip_text(e[1])))
            ip, p, err, mac = outs[oi]
            if ex[0] == "err":
                if err != 12:
                    return fail(oi, "entry %d (%s) has no known MAC but yields %s" % (
                        li + 1, T.ip_text(e[1]), "a probe" if not err else "the error '%s'" % T.ERRNAME.get(err, err)))
                return go(pi, li + 1, oi + 1, port, ports)
            if err:
                return fail(oi, "valid entry %d (%s) yields the error '%s'" % (li + 1, T.ip_text(e[1]), T.ERRNAME.get(err, err)))
            if T.ip_key(ip) != T.ip_key(e[1]):
                return fail(oi, "entry %d: a probe to %s where the entry says %s" % (li + 1, T.ip_text(ip), T.ip_text(e[1])))
            if mac != ex[3]:
                return fail(oi, "entry %d: destination MAC %s where the cache says %s" % (li + 1, mac.hex(), ex[3].hex()))
            if mode == 0 and p != e[2]:
                return fail(oi, "entry %d: a probe to port %d where the entry says %d" % (li + 1, p, e[2]))
            if mode == 1:
                if port is None:
                    port = p
                elif p != port:
                    return fail(oi, "entry %d: port changes from %d to %d inside one pass over the file" % (li + 1, port, p))
            return go(pi, li + 1, oi + 1, port, ports)
        # bad entry: exactly one error with its cause, then stop or continue
        if oi >= len(outs):
            return fail(oi, "bad entry %d (%s) produces no error record" % (li + 1, T.ERRNAME[e[1]]))
        ip, p, err, mac = outs[oi]
        if err != e[1]:
            got = "a probe to %s:%d" % (T.ip_text(ip), p) if not err else "the error '%s'" % T.ERRNAME.get(err, err)
            return fail(oi, "bad entry %d (%s) yields %s" % (li + 1, T.ERRNAME[e[1]], got))
        r = go(pi, li + 1, oi + 1, port, ports)          # continue after it
        if r is not None:
            return r
        return next_pass(pi, oi + 1, port, ports)      # or stop at it

    def next_pass(pi, oi, port, ports):
        ports = ports + [port]
        if pi + 1 == nports:
            if oi != len(outs):
                ip, p, err, mac = outs[oi]
                what = "a probe to %s:%d" % (T.ip_text(ip), p) if not err else "the error '%s'" % T.ERRNAME.get(err, err)
                return fail(oi, "%d more output(s) after the last entry: %s" % (len(outs) - oi, what))
            return ports
        return go(pi + 1, 0, oi, None, ports)

    r = go(0, 0, 0, None, [])
    if r is None:
        return False, best[1], None
    return True, "", r


def all_ports(ranges):
    ps = []
    for s, e in ranges or []:
        ps += list(range(s, e + 1))
    return ps


def spec_on_impl(o):
    outs = T.decode_reqs(T.hb(o.get("out")))
    cache = T.decode_cache(T.hb(o.get("cache_enc"))) if o["cache"] else None
    if o["kind"] == "stages":
        if o["err"] or not o["complete"]:
            return "the decorators fail or do not close their output"
        rin = T.decode_reqs(T.hb(o["in"]))
        want = []
        for (ip, port, err, mac) in rin:
            if err:
                want.append((ip, port, err, mac))     # an error request: unchanged, whatever is stacked
                continue
            ex = expect_good(o, cache, ip, port)
            if ex is None:
                continue
            want.append((ip, port, 12, b"") if ex[0] == "err" else (ip, port, 0, ex[3]))
        if len(want) != len(outs):
            return "%d requests leave the decorators where %d are due" % (len(outs), len(want))
        for i, (w, g) in enumerate(zip(want, outs)):
            if w[2] and g[2] != w[2]:
                return "the cause '%s' of error request %d becomes '%s'" % (T.ERRNAME.get(w[2]), i + 1, T.ERRNAME.get(g[2], g[2]) or "a probe")
            if (T.ip_key(w[0]), w[1], w[2]) != (T.ip_key(g[0]), g[1], g[2]) or (not w[2] and w[3] != g[3]):
                return "request %d leaves the decorators as %r where %r is due" % (i + 1, g, w)
        return None
    # file cases
    if o["source"] == "missing":
        if o["err"] != 7 and not (len(outs) == 1 and outs[0][2] == 7):
            return "a target file that cannot be opened does not yield one 'cannot open' error (err=%s, %d outputs)" % (o["err"], len(outs))
        return None
    if o["err"]:
        return "GenerateRequests fails with '%s' on a readable target file" % o.get("err_msg")
    if not o["complete"]:
        return "the generator chain does not close its output"
    entries = [entry(l, o["mode"]) for l in decode_lines(T.hb(o["lines_enc"]))]
    ports = all_ports(o["ranges"]) if o["mode"] == 1 else [None]
    ok, msg, pass_ports = judge_passes(o, entries, outs, cache, len(ports))
    if not ok:
        return "%s file, %s: %s%s" % (("pairs", "address", "address")[o["mode"]], o["source"], msg, long_line_detail(o, entries, outs, len(ports)))
    if o["mode"] == 1:
        known = sorted(p for p in pass_ports if p is not None)
        pool = sorted(ports)
        for p in known:
            if p in pool:
                pool.remove(p)
            else:
                return "address file, %s: a pass over the file for port %d which the port ranges do not (or no longer) denote" % (o["source"], p)
    return None


def long_line_detail(o, entries, outs, npasses):
    """names the over-long physical line of a failing file and what the outputs make of it: the error records it gets
    and the probes / records for addresses no valid line of the file names (only wording; the verdict is judge_passes')"""
    longs = [(i, l) for i, l in enumerate(o.get("lines") or []) if l.get("len")]
    if not longs:
        return ""
    i, l = longs[0]
    named = set(T.ip_key(e[1]) for e in entries if e[0] == "good")
    foreign = [(ip, p, err) for (ip, p, err, mac) in outs if ip and T.ip_key(ip) not in named]
    ntl = sum(1 for r in outs if r[2] == 6)
    nbadjson = sum(1 for r in outs if r[2] == 5)
    s = " [line %d of the file is ONE physical line of %d bytes (%s)" % (i + 1, l["len"], l["class"])
    if l.get("tail"):
        s += "; its bytes from offset %d on read %r" % (l["tail_at"], l["tail"][:60])
    s += "; the %d pass(es) over the file give %d 'line too long' and %d 'invalid json' records where the line is due exactly one " \
         "'line too long' record per pass" % (npasses, ntl, nbadjson)
    if foreign:
        ip, p, err = foreign[0]
        s += "; %d output(s) for an address no valid line names, the first %s %s:%d" % (
            len(foreign), "a probe to" if not err else "the error '%s' for" % T.ERRNAME.get(err, err), T.ip_text(ip), p)
    return s + "]"


def stage_term(o):
    f = "None"
    if o["filter"]:
        f = "(Some %s)" % verif.coq_list(["(%s, %s)" % (verif.coq_z(b), verif.coq_z(p)) for b, p in o["nets"]])
    c = "(Some %s)" % T.packed(o["cache_enc"]) if o["cache"] else "None"
    return "{| sc_filter := %s; sc_cache := %s |}" % (f, c)


def case_term(o):
    if o["kind"] == "stages":
        return "CStages {| gc_stages := %s; gc_in := %s; gc_complete := %s; gc_out := %s |}" % (
            stage_term(o), T.packed(o["in"]), verif.coq_bool(o["complete"]), T.packed(o.get("out")))
    ranges = verif.coq_list(["(%d, %d)" % (s, e) for s, e in (o["ranges"] or [])])
    draws = verif.coq_list(["(%s, %s)" % (verif.coq_z(a), verif.coq_z(b)) for a, b in (o["draws"] or [])])
    return ("CFile {| fc_mode := %d; fc_lines := %s; fc_openable := %s; fc_stages := %s; fc_ranges := %s; fc_draws := %s; "
            "fc_err := %d; fc_complete := %s; fc_out := %s |}") % (
        o["mode"], T.packed(o["lines_enc"]), verif.coq_bool(o["source"] != "missing"), stage_term(o), ranges, draws,
        o["err"], verif.coq_bool(o["complete"]), T.packed(o.get("out")))


def describe(o):
    return "%s case seed=%d (%s mode %d %s)" % (o["kind"], o["case_seed"], o["cmd"], o["mode"], o.get("source", ""))


def report(ctx, o, why):
    small = {k: v for k, v in o.items() if k not in ("out", "in", "lines_enc", "cache_enc")}
    path = ctx.write_replay("%s-%d" % (o["kind"], o["case_seed"]), {
        "property": "C13", "what": why, "input": {"kind": o["kind"], "case_seed": o["case_seed"]},
        "observed": small, "replay_cmd": "bin/check C13 --replay <this file>"})
    bad = sorted(set(l["class"] for l in o.get("lines") or [] if l["class"] in
                     ("noip", "noport", "empty-object", "badip", "badport", "badtype", "badjson", "blank", "toolong") or l["class"].startswith("toolong-")))
    key = "%s:%s:mode%d:%s:filter=%s:cache=%s:%s" % (o["kind"], o["cmd"], o["mode"], o.get("source", ""), o["filter"], o["cache"], "+".join(bad))
    ctx.findings.append({"key": key, "what": why, "replay": path})


def nontrivial(o):
    if o["kind"] == "stages":
        return any(r[2] for r in T.decode_reqs(T.hb(o["in"])))
    return any(r[2] for r in T.decode_reqs(T.hb(o.get("out")))) or o["err"] != 0


def burst_spec(o):
    """every bad entry exactly one error record with its cause, every valid entry one probe - however late the
    consumer of the error stream starts"""
    nbad = sum(o["nbad"].values())
    if o["engine"] == "start":
        head = ("pairs file with %d valid entries followed by %d bad entries at the END through the real startScanEngine of the "
                "application scans (4 workers, exit delay %g ms, logger 0.1 ms per record)" % (o["nvalid"], nbad, o["exit_delay_us"] / 1000.0))
    else:
        eng = {"generic": "socks/docker/elastic engine (NewScanEngine, 4 workers)",
               "packet": "tcp packet engine (NewPacketEngine, real sender)"}[o["engine"]]
        head = "pairs file with %d valid and %d bad entries in a row through the %s, error consumer %d ms late" % (
            o["nvalid"], nbad, eng, o["late_ms"])
    if not o["done"]:
        return head + ": the engine does not finish"
    for cause, n in sorted(o["nbad"].items()):
        got = (o["errors"] or {}).get(cause, 0)
        if got != n:
            return head + ": %d entries with cause '%s' give %d error records" % (n, cause, got)
    extra = {k: v for k, v in (o["errors"] or {}).items() if k not in o["nbad"]}
    if extra:
        return head + ": error records with causes no entry has: %r" % extra
    if o["probes"] != o["nvalid"]:
        return head + ": %d probes for %d valid entries" % (o["probes"], o["nvalid"])
    return None


def run(ctx):
    quick = ctx.tier == "quick"
    ctx.trusted += ["easyjson decoder, net.ParseIP and bufio.Scanner are library code: the model works on line OUTCOMES which the "
                    "harness knows by construction for every generated line (a wrong assumption about the libraries shows up as a "
                    "model/implementation disagreement); cidranger = set membership; arp.Cache = map keyed by the address text",
                    "pkg/scan/verif_export_c01.go, command/verif_export_c01.go (build tag verif)"]
    ctx.assumptions += ["in file x ports mode an address entry stands for one target per port (one error per port pass for a bad "
                        "entry), the multiplicity C01 uses"]
    gen_ok, model_ok, proof_ok = T.gen_and_prove(ctx, "Spec/C13.vo", "Properties/C13.v", more=["Properties/C13Wire.v"])
    rows = []
    if ctx.harness_build("c13"):
        args = ["-out", "cases.jsonl", "-seed", ctx.seed]
        args += ["-n", 600, "-nstages", 200, "-nburst", 2, "-nlong", 48] if quick else ["-n", 20000, "-nstages", 6000, "-nburst", 24, "-nlong", 1500]
        ok, _ = ctx.harness_run("c13", args, timeout=3000)
        if ok:
            rows = ctx.read_jsonl(os.path.join(ctx.work, "cases.jsonl"))
    bursts = [o for o in rows if o["kind"] == "burst"]
    rows = [o for o in rows if o["kind"] != "burst"]
    per_class = {}
    # a run of 230..380 bad entries (more than the 100 slots of the engines' error channels) through the real
    # GenericEngine and the real PacketEngine (real tcp filler, real sender) with an error consumer that starts late
    for o in bursts:
        cls = "burst:" + o["engine"]
        ctx.count(cls, ("burst", o["case_seed"]), nontrivial=True,
                  sample={"kind": "burst", "engine": o["engine"], "bad_entries": o["nbad"], "valid_entries": o["nvalid"],
                          "consumer_late_ms": o["late_ms"], "exit_delay_us": o.get("exit_delay_us"), "error_records": o["errors"],
                          "probes": o["probes"]})
        why = burst_spec(o)
        if why:
            per_class[cls] = per_class.get(cls, 0) + 1
            path = ctx.write_replay("burst-%s-%d" % (o["engine"], o["case_seed"]), {
                "property": "C13", "what": why, "input": {"kind": "burst-" + o["engine"], "case_seed": o["case_seed"]},
                "observed": o, "replay_cmd": "bin/check C13 --replay <this file>"})
            ctx.findings.append({"key": "burst:" + o["engine"], "what": why, "replay": path})
    for o in rows:
        cls = "%s:%s:mode%d:%s" % (o["kind"], o["cmd"], o["mode"], o.get("source", ""))
        ctx.count(cls, (o["kind"], o["case_seed"]), nontrivial=nontrivial(o),
                  sample={"kind": o["kind"], "cmd": o["cmd"], "mode": o["mode"], "source": o.get("source"), "filter": o["filter"],
                          "cache": o["cache"], "gateway": o["gateway"], "lines": [l["class"] for l in (o.get("lines") or [])][:12],
                          "long_line_bytes": max([l.get("len", 0) for l in (o.get("lines") or [])] or [0]),
                          "outputs": len(T.decode_reqs(T.hb(o.get("out")))), "err": o["err"]})
        why = spec_on_impl(o)
        if why:
            per_class[cls] = per_class.get(cls, 0) + 1
            if per_class[cls] <= 2 and len(ctx.findings) < 10:
                report(ctx, o, why)
    if per_class:
        ctx.info.append("failing inputs per class: %s" % json.dumps(per_class))
    # error requests through the REAL packet engine (N workers, merger, sender, error stream): every error request
    # one error record, every good request before and after it one frame (the engine side of C13Wire.v)
    from checks import c07
    if ctx.harness_build("c07"):
        eng = c07.run_harness(ctx, 12 if quick else 120, ctx.seed + 13, name="engine.jsonl", maxreq=400)
        for o in eng:
            reqs = o["reqs"] or []
            ctx.count("engine:" + o["class"], ("engine", o["n"], o["cap"], json.dumps(reqs)), nontrivial=any(r["bad"] for r in reqs),
                      sample={"workers": o["n"], "requests": len(reqs), "with_error": sum(1 for r in reqs if r["bad"])})
            why = engine_spec(o)
            if why:
                why = "packet engine, %d workers, %d requests of which %d carry an error: %s" % (
                    o["n"], len(reqs), sum(1 for r in reqs if r["bad"]), why)
                path = ctx.write_replay("engine-case%d" % o["case"], {"property": "C13", "what": why, "input": {
                    "n": o["n"], "cap": o["cap"], "reqs": reqs, "harness": "c07 -seed %d -n %d -maxreq 400 -only %d" % (
                        ctx.seed + 13, 12 if quick else 120, o["case"])}})
                if sum(1 for f in ctx.findings if f["key"].startswith("engine:")) < 2:
                    ctx.findings.append({"key": "engine:" + why.split(":")[1][:40], "what": why, "replay": path})
    # the error records as a user sees them: the real `sx socks -f <file>` with 260 bad entries, stderr lines counted
    from checks import c08
    if ctx.harness_build("c08"):
        for o in c08.run_e2e(ctx):
            if not o.get("bad_entries"):
                continue
            ctx.count("e2e-bad-entries", ("e2e", o["cmd"], o["bad_entries"]), nontrivial=True,
                      sample={"cmd": o["cmd"], "bad_entries": o["bad_entries"], "error_records": o["err_records"]})
            if o["err_records"] != o["bad_entries"] or o["exit"] != 0:
                why = "sx %s --json -f <file with %d entries whose address is invalid>: %d error records on stderr, exit status %d " \
                      "(every entry that cannot become a probe yields exactly one error record)" % (
                          o["cmd"], o["bad_entries"], o["err_records"], o["exit"])
                path = ctx.write_replay("e2e-bad-entries", {"property": "C13", "what": why, "input": {"args": o["args"]}, "observed": o})
                ctx.findings.append({"key": "e2e:bad-entries", "what": why, "replay": path})
    if model_ok and rows:
        T.evaluate(ctx, rows, case_term, "From SX Require Import Base.Bytes Model.IPNet Spec.C13.", 16 if quick else 64, describe, CODES)
    return ctx.finish(rule=RULE)


def engine_spec(o):
    """C13 on a complete run of the real packet engine: one error record per request that carries an error, no frame
    for it, no frame twice, and every good request BEFORE the first error request on the wire (what happens to
    entries after an offending one is left open by the property: processing may stop there)."""
    if o["panic"]:
        return "panic: " + o["panic"]
    if o["stuck"]:
        return "stuck: " + o["stuck"]
    reqs = o["reqs"] or []
    bad = [r["id"] for r in reqs if r["bad"]]
    got = [w["id"] for w in (o["wire"] or [])]
    errs = o["errs"] or []
    for b in bad:
        n = errs.count("req:%d" % b)
        if b in got:
            return "the entry %d that carries an error became a frame on the wire" % b
        if n > 1:
            return "the entry %d that carries an error yields %d error records" % (b, n)
    dup = sorted(x for x in set(got) if got.count(x) > 1)
    if dup:
        return "entry %d is probed %d times" % (dup[0], got.count(dup[0]))
    if bad:
        first = min(bad)
        lost = [r["id"] for r in reqs if r["id"] < first and not r["bad"] and r["fill"] and r["write"] and r["id"] not in got]
        if lost:
            return "entries %s BEFORE the first offending entry %d are never probed (%d of %d frames written)" % (
                lost[:5], first, len(got), sum(1 for r in reqs if not r["bad"] and r["fill"] and r["write"]))
        missing_errs = [b for b in bad if "req:%d" % b not in errs]
        if missing_errs and len(got) == sum(1 for r in reqs if not r["bad"] and r["fill"] and r["write"]):
            return "the offending entries %s yield no error record although the scan ran to its end" % missing_errs[:5]
    return None


def replay(ctx, path):
    r = json.load(open(path))
    i = r.get("input")
    if not i:
        print(json.dumps(r, indent=1))
        return 1
    if not ctx.harness_build("c13"):
        return 1
    ctx.harness_run("c13", ["-out", "one.jsonl", "-replay", "%s:%d" % (i["kind"], i["case_seed"])], timeout=600)
    o = ctx.read_jsonl(os.path.join(ctx.work, "one.jsonl"))[0]
    why = burst_spec(o) if o["kind"] == "burst" else spec_on_impl(o)
    print("replay %s case seed=%d: %s" % (i["kind"], i["case_seed"], why or "property holds on this input"))
    print(json.dumps({k: v for k, v in o.items() if k not in ("out", "in", "lines_enc", "cache_enc")})[:1500])
    return 1 if why else 0


MANIFEST = {
    "technique": "Coq proof (per-entry semantics of the file generators and of every stack of decorators, splice lemmas for "
                 "every position, generated command wiring) + differential correspondence on generated files and streams",
    "level_text": "Theorems C13_pairs_per_entry / C13_addrs_per_entry / C13_one_error_per_bad_entry / C13_good_entry / "
                  "C13_neighbours_unchanged / C13_stages_keep_errors / C13_commands_* hold for all files (any length, any "
                  "position of bad entries), all four stage stackings, both file modes and every command of the generated wiring "
                  "table; the executable model is compared request by request with the real generator chains of tcp, udp, icmp "
                  "and the application scans on generated files (regular, stdin, missing) and with the real decorators on "
                  "streams carrying errors.",
    "level_note": "Trusted: Coq kernel + VM, easyjson/net.ParseIP/bufio.Scanner (line outcomes known by construction, checked "
                  "differentially), cidranger and arp.Cache (modelled as maps), tools/gen wiring transcription, harness. No axioms.",
    "design_ref": "DESIGN.md section 5 (C13)",
}
