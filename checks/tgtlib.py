"""Helpers shared by the checks of the target-generation properties C01, C02 and C13 (not a check itself)."""
import json
import os
import re

import verif

ERRNAME = {0: "", 1: "invalid port range", 2: "invalid subnet", 3: "invalid ip", 4: "invalid port", 5: "invalid json",
           6: "line too long", 7: "cannot open", 8: "range size", 9: "invalid cyclic group", 11: "exclusion lookup failed",
           12: "no destination MAC", 99: "other"}


def hb(h):
    return bytes.fromhex(h or "")


def zl(h):
    return verif.coq_bytes(hb(h))


def packed(h):
    return verif.coq_packed(hb(h))


def decode_reqs(b):
    """packed requests -> list of (ip bytes, port, err class, mac bytes)"""
    out, i = [], 0
    while i < len(b):
        n = b[i]
        ip = b[i + 1:i + 1 + n]
        i += 1 + n
        port = b[i] * 256 + b[i + 1]
        err, m = b[i + 2], b[i + 3]
        mac = b[i + 4:i + 4 + m]
        i += 4 + m
        out.append((bytes(ip), port, err, bytes(mac)))
    return out


def decode_cache(b):
    """packed cache -> (dict key->mac with later entries winning, gateway mac bytes)"""
    if not b:
        return {}, b""
    n, i, table = b[0], 1, {}
    for _ in range(n):
        k = b[i]
        ip = bytes(b[i + 1:i + 1 + k])
        i += 1 + k
        m = b[i]
        mac = bytes(b[i + 1:i + 1 + m])
        i += 1 + m
        table[ip_key(ip)] = mac
    g = b[i]
    return table, bytes(b[i + 1:i + 1 + g])


def ip_key(ip):
    """the text form Go uses as cache key: IPv4 and IPv4-mapped spellings are one key"""
    if len(ip) == 16 and ip[:12] == bytes(10) + b"\xff\xff":
        return bytes(ip[12:])
    return bytes(ip)


def v4num(ip):
    ip = ip_key(ip)
    if len(ip) == 4:
        return int.from_bytes(ip, "big")
    return None


def dotted(x):
    return ".".join(str((x >> s) & 255) for s in (24, 16, 8, 0))


def ip_text(ip):
    x = v4num(ip)
    if x is not None:
        return dotted(x)
    return ip.hex() or "nil"


def covered_nets(nets, ip):
    """nets: list of [base, prefix]; membership of an address by the meaning of the exclusion entries"""
    x = v4num(ip)
    if x is None:
        return False
    for base, p in nets:
        sh = 32 - p
        if (x >> sh) == (base >> sh):
            return True
    return False


def case_file(imports, rows_terms):
    body = ["From Coq Require Import ZArith List Uint63.", imports, "Import ListNotations.", "Open Scope Z_scope.",
            "Definition cases : list case := [", ";\n".join(rows_terms), "].",
            "Definition M := Eval vm_compute in check_all 0 cases.",
            "Definition L := Eval vm_compute in length cases.", "Print M. Print L."]
    return "\n".join(body)


def parse_eval(ctx, out, nrows):
    m = ctx.parse_result(out, "M")
    n_model = int(ctx.parse_result(out, "L"))
    if n_model != nrows:
        raise verif.Broken("case count differs between harness and model (%d vs %d)" % (nrows, n_model))
    res = []
    if m.strip() not in ("[]", "nil"):
        for idx, codes in re.findall(r"\((\d+), \[([^\]]*)\]\)", m):
            res.append((int(idx), [int(c.strip().strip("()")) for c in codes.split(";") if c.strip()]))
        if not res:
            raise verif.Broken("cannot parse mismatch list", m[:500])
    return res


def shards(rows, nshards, weight=None):
    """balance row indices over shards by payload size"""
    weight = weight or (lambda o: len(json.dumps(o)))
    order = sorted(range(len(rows)), key=lambda i: -weight(rows[i]))
    parts = [[] for _ in range(nshards)]
    loads = [0] * nshards
    for i in order:
        j = loads.index(min(loads))
        parts[j].append(i)
        loads[j] += weight(rows[i]) + 400
    return [p for p in parts if p]


def evaluate(ctx, rows, term_of, imports, nshards, describe, codes, limit=40):
    """model vs implementation inside Coq; appends mismatches to ctx.broken; returns the mismatching rows"""
    bad = []
    parts = shards(rows, nshards)
    outs = ctx.coq_eval_many([("cases_%d" % i, case_file(imports, [term_of(rows[j]) for j in p])) for i, p in enumerate(parts)])
    for p, out in zip(parts, outs):
        for idx, cs in parse_eval(ctx, out, len(p)):
            o = rows[p[idx]]
            bad.append((o, cs))
            if len(ctx.broken) < limit:
                ctx.broken.append(("correspondence: %s: %s" % (describe(o), "; ".join(codes.get(c, str(c)) for c in cs)),
                                   json.dumps({k: v for k, v in o.items() if k not in ("out", "in", "lines_enc", "member")})[:700]))
        ctx.cov["traces_validated_against_impl"] += len(p)
    return bad


def gen_and_prove(ctx, spec_vo, prop_v, more=()):
    """translator + model build + proof build.  coq/Gen is shared by all checks: when another check, run against a
    DIFFERENT source tree (scratch worktrees during development), regenerates it between our translator run and our
    Coq build, the build sees foreign wiring.  Detect that (the generated file changed under us) and retry."""
    wiring = os.path.join(verif.COQ, "Gen", "TargetWiring.v")

    def read():
        try:
            return open(wiring).read()
        except OSError:
            return ""
    gen_ok = model_ok = proof_ok = False
    for attempt in range(5):
        nb = len(ctx.broken)
        gen_ok = ctx.gen()
        snap = read()
        model_ok = gen_ok and ctx.coq_model([spec_vo])
        proof_ok = gen_ok and ctx.coq_proofs(prop_v, more=more)
        if (model_ok and proof_ok) or read() == snap:
            break
        del ctx.broken[nb:]
        ctx.info.append("coq/Gen was regenerated from another tree during the build; retried")
    why = (getattr(ctx, "gen_failures", None) or {}).get("TargetWiring")
    if why:
        ctx.broken.append(("translator: the generator chains / chunk loop of command/*.go have a shape tools/gen/"
                           "targets_wiring.go does not understand: " + why, ""))
    return gen_ok, model_ok, proof_ok
