"""C07 -- packet pipeline: nothing lost, duplicated or altered before the wire."""
import json
import os

import verif

RULE = ("complete runs of the real PacketEngine (N in {1,2,7,16,64} workers, 0..1000 scripted requests with request/"
        "fill/write errors at random positions incl. bursts beyond the 100-slot error buffers, request channel capacity "
        "0/1/100, yielding fillers and slow writers); non-trivial = at least 5 requests; distinct by (N, cap, request script)")


def fate(r):
    if r["bad"]:
        return "req"
    if not r["fill"]:
        return "fill"
    if not r["write"]:
        return "write"
    return "wire"


def spec_on_impl(o):
    """The property judged on the implementation's observation alone (complete runs only)."""
    if o["panic"]:
        return "panic: " + o["panic"]
    if o["stuck"]:
        return "stuck: " + o["stuck"]
    reqs = o["reqs"] or []
    want_wire = sorted(r["id"] for r in reqs if fate(r) == "wire")
    want_errs = sorted("%s:%d" % (fate(r), r["id"]) for r in reqs if fate(r) != "wire")
    wire = o["wire"] or []
    got = [w["id"] for w in wire]
    if any(not w["intact"] for w in wire):
        return "a frame reached the writer with bytes different from what Fill produced (id %d)" % \
               [w["id"] for w in wire if not w["intact"]][0]
    if got != want_wire:
        miss = sorted(set(want_wire) - set(got))
        extra = sorted(set(got) - set(want_wire))
        dup = sorted(x for x in set(got) if got.count(x) > 1)
        return "frames written differ from frames built: missing %s extra %s duplicated %s" % (miss[:5], extra[:5], dup[:5])
    if sorted(o["errs"] or []) != want_errs:
        ge = o["errs"] or []
        miss = sorted(set(want_errs) - set(ge))
        extra = sorted(set(ge) - set(want_errs))
        return "errors on the error stream differ: missing %s extra/duplicated %s (got %d, want %d)" % (
            miss[:5], extra[:5], len(ge), len(want_errs))
    if o["fill_calls"] != sum(1 for r in reqs if not r["bad"]):
        return "Fill was called %d times for %d error-free requests" % (o["fill_calls"], sum(1 for r in reqs if not r["bad"]))
    if not o["done_closed"] or not o["errc_closed"]:
        return "done/errc not closed at the end (done=%s errc=%s)" % (o["done_closed"], o["errc_closed"])
    if o["writes_after_done"] or o["wire_at_done"] != len(wire):
        return "completion signalled before the last frame was handed to the wire (%d of %d written at done, %d writes " \
               "started after done)" % (o["wire_at_done"], len(wire), o["writes_after_done"])
    return None


def case_term(o):
    reqs = o["reqs"] or []
    b = verif.coq_bool
    return ("{| cN := %d; ccap := %d; creqs := [%s]; cfill := [%s]; cwrite := [%s]; cwire := [%s]; cerrs := [%s]; "
            "cfillcalls := %d |}") % (
        o["n"], o["cap"], "; ".join("(%d, %s)" % (r["id"], b(r["bad"])) for r in reqs),
        "; ".join(b(r["fill"]) for r in reqs), "; ".join(b(r["write"]) for r in reqs),
        "; ".join(str(w["id"]) for w in (o["wire"] or [])),
        "; ".join(str(x) for x in sorted(int(e.split(":")[1]) for e in (o["errs"] or []) if not e.startswith("other"))),
        o["fill_calls"])


def case_file(rows):
    return "\n".join([
        "From stdpp Require Import list.", "From SX Require Import Spec.C07.",
        "Definition cases : list case := [", ";\n".join(case_term(o) for o in rows), "].",
        "Definition M := Eval vm_compute in check_all 0 cases.",
        "Definition L := Eval vm_compute in length cases.", "Print M. Print L."])


CODES = {1: "wire multiset differs from the model's terminal state", 2: "error multiset differs from the model's",
         3: "number of Fill calls differs from the model's", 4: "(harness) model schedule too short",
         5: "the model run panicked or was cancelled"}


def report(ctx, o, why):
    small = {k: v for k, v in o.items() if k not in ("wire", "errs")}
    small["wire_len"] = len(o["wire"] or [])
    small["errs_len"] = len(o["errs"] or [])
    path = ctx.write_replay("case%d" % o["case"], {"property": "C07", "what": why, "input": {
        "n": o["n"], "cap": o["cap"], "reqs": o["reqs"], "cancel_at": o["cancel_at"]}, "observed": small})
    ctx.findings.append({"key": "pipeline:" + why.split(":")[0][:40], "what": why, "replay": path})


def run_harness(ctx, n, seed, env=None, name="cases.jsonl", maxreq=1000, wrap=()):
    args = ["-seed", seed, "-n", n, "-cancel", 0, "-maxreq", maxreq]
    ok, _ = ctx.harness_run("c07", ["-out", name] + args, timeout=900, env=env, wrap=wrap)
    if not ok:
        crash_finding(ctx, "c07", args, n + 2, env)
    return ctx.read_jsonl(os.path.join(ctx.work, name)) if ok else []


def crash_finding(ctx, harness, args, total, env=None, prop="C07", key="pipeline:crash"):
    """the harness process died: a panic in a goroutine of the code under test; isolate the run that does it"""
    if any(f["key"] == key for f in ctx.findings):
        return
    hit = ctx.harness_crash_search(harness, args, total, env=env)
    if hit:
        import re
        k, out = hit
        m = re.search(r"(panic: [^\n]*|fatal error: [^\n]*)", out)
        why = "the process crashes: " + (m.group(1) if m else "harness died")
        path = ctx.write_replay("crash%d" % k, {"property": prop, "what": why, "input": {
            "harness": harness, "args": [str(a) for a in args], "only": k}, "output_tail": out[-1500:],
            "replay_cmd": "%s %s -only %d" % (os.path.join(verif.HBIN, harness), " ".join(map(str, args)), k)})
        ctx.findings.append({"key": key, "what": why, "replay": path})


def run(ctx):
    import re
    quick = ctx.tier == "quick"
    ctx.trusted += ["Base/Net.v is the assumed semantics of Go channels, select, close, WaitGroup and context cancellation "
                    "(fairness and real time not modelled)",
                    "goroutine bodies are modelled by hand (Model/Pipeline.v); their source shape is pinned by "
                    "Model/PipelineShape.v against Gen/Skeletons.v",
                    "buffer-pool aliasing (sync.Pool) is not in the model: the harness writer re-checks frame bytes after "
                    "yielding; the thorough tier runs under the race detector"]
    ctx.assumptions += ["FreeSerializeBuffer never fails (gopacket's Clear returns nil)",
                        "the terminal-state theorems assume no cancellation before the error stream is drained"]
    gen_ok = ctx.gen()
    model_ok = gen_ok and ctx.coq_model(["Spec/C07.vo"])
    ctx.coq_proofs("Properties/C07.v") if gen_ok else None
    rows = []
    if ctx.harness_build("c07"):
        rows = run_harness(ctx, 40 if quick else 400, ctx.seed)
        rows += run_harness(ctx, 50 if quick else 500, ctx.seed + 17, name="cases_small.jsonl", maxreq=100)
        # the same engine in a process that may run on ONE cpu only (runtime.NumCPU() == 1: one-vCPU machines, cpusets)
        import shutil
        if shutil.which("taskset"):
            cpu = sorted(os.sched_getaffinity(0))[0]
            one = run_harness(ctx, 8 if quick else 60, ctx.seed + 41, name="cases_onecpu.jsonl", maxreq=100,
                              wrap=("taskset", "-c", str(cpu)))
            for o in one:
                o["class"] = "onecpu:" + o["class"]
            ctx.info.append("%d runs in a process confined to one cpu (runtime.NumCPU() == 1)" % len(one))
            rows += one
        # failed builds through the REAL tcp / udp / icmp fillers (MACs of 8 and 20 bytes, no MAC, short source MAC, IPv6
        # destination) behind the real multi generator + sender: one error and no frame each, every other frame intact
        ok, _ = ctx.harness_run("c07", ["-out", "buildfail.jsonl", "-buildfail", 400 if quick else 4000], timeout=600)
        bf = ctx.read_jsonl(os.path.join(ctx.work, "buildfail.jsonl")) if ok else []
        for o in bf:
            ctx.count("buildfail", ("buildfail", o["kind"], o["workers"]), nontrivial=True,
                      sample={"filler": o["kind"], "workers": o["workers"], "requests": o["n"], "unbuildable": o["unbuildable"],
                              "errors": o["errors"], "frames": o["frames"]})
            why = None
            if o["stuck"]:
                why = "the engine does not complete within 30 s"
            elif o["bad"]:
                why = o["bad"]
            elif o["errors"] != o["unbuildable"]:
                why = "%d requests cannot be built but %d errors are on the error stream (first: %s)" % (o["unbuildable"], o["errors"], o["first_errors"])
            elif o["frames"] != o["n"] - o["unbuildable"]:
                why = "%d frames written for %d buildable requests" % (o["frames"], o["n"] - o["unbuildable"])
            if why:
                why = "%d requests (one in seven unbuildable: destination MAC of 8 / 20 / 0 bytes, 5-byte source MAC, IPv6 destination) through the real %s filler, %d generator workers, real sender: %s" % (
                    o["n"], o["kind"], o["workers"], why)
                path = ctx.write_replay("buildfail-%s-%d" % (o["kind"], o["workers"]), {"property": "C07", "what": why, "input": {
                    "harness": "c07 -buildfail %d" % o["n"], "filler": o["kind"], "workers": o["workers"]}, "observed": o})
                ctx.findings.append({"key": "buildfail:" + o["kind"], "what": why, "replay": path})
        ctx.info.append("%d runs of the real tcp/udp/icmp fillers with unbuildable requests behind the real generator workers and sender" % len(bf))
        for i, o in enumerate(rows):
            o["case"] = i
        if not quick:
            for gmp in ("1", "4"):
                rows += run_harness(ctx, 200, ctx.seed + int(gmp), env={"GOMAXPROCS": gmp}, name="cases_g%s.jsonl" % gmp)
    for o in rows:
        reqs = o["reqs"] or []
        ctx.count(o["class"], (o["n"], o["cap"], json.dumps(reqs)), nontrivial=len(reqs) >= 5,
                  sample={"N": o["n"], "cap": o["cap"], "requests": len(reqs), "class": o["class"],
                          "wire": len(o["wire"] or []), "errors": len(o["errs"] or []), "fill_calls": o["fill_calls"],
                          "first_requests": reqs[:4]})
        why = spec_on_impl(o)
        if why and o["class"].startswith("onecpu:"):
            why = why.split(":")[0] + " [process confined to one cpu, runtime.NumCPU() == 1, %d generator workers asked for]:" % o["n"] + ":".join(why.split(":")[1:])
        if why:
            report(ctx, o, why)
    if model_ok and rows:
        small = [o for o in rows if len(o["reqs"] or []) <= 120 and o["n"] <= 16 and not o["panic"] and not o["stuck"]]
        small = small[:48 if quick else 400]
        nsh = 16
        size = max(1, (len(small) + nsh - 1) // nsh)
        parts = [small[i:i + size] for i in range(0, len(small), size)]
        outs = ctx.coq_eval_many([("cases_%d" % i, case_file(p)) for i, p in enumerate(parts)])
        for part, out in zip(parts, outs):
            m = ctx.parse_result(out, "M")
            if int(ctx.parse_result(out, "L")) != len(part):
                raise verif.Broken("case count differs between harness and model")
            if m.strip() not in ("[]", "nil"):
                for idx, codes in re.findall(r"\((\d+), \[([^\]]*)\]\)", m):
                    o = part[int(idx)]
                    cs = [int(c) for c in codes.split(";") if c.strip()]
                    ctx.broken.append(("correspondence: case %d (N=%d, %d requests): %s" % (
                        o["case"], o["n"], len(o["reqs"] or []), "; ".join(CODES.get(c, str(c)) for c in cs)), ""))
            ctx.cov["traces_validated_against_impl"] += len(part)
        ctx.info.append("%d runs compared with the model's terminal state inside Coq (runs with <= 120 requests and "
                        "<= 16 workers); all %d runs judged by the property on the implementation's observation" % (
                            len(small), len(rows)))
    if not quick:
        ctx.harness_race_run("c07", ["-out", "race.jsonl", "-seed", ctx.seed + 5, "-n", 150, "-cancel", 150], "in the engine under load")
    if ctx.broken and not ctx.findings and os.path.exists(os.path.join(verif.HBIN, "c07")):
        # search harder on the implementation: more runs, several GOMAXPROCS settings
        import time as _time
        t0 = _time.time()
        # the buffer pool under the highest turnover first: 64 workers, thousands of error-free requests
        for rnd, gmp in enumerate(("16", "4", "16", "2", "16", "8", "16", "4", "16", "32", "16", "4")):
            if _time.time() - t0 > 120:
                break
            ok, _ = ctx.harness_run("c07", ["-out", "poolrace.jsonl", "-seed", ctx.seed + 77 + rnd, "-poolrace", 40], timeout=600, env={"GOMAXPROCS": gmp})
            for o in (ctx.read_jsonl(os.path.join(ctx.work, "poolrace.jsonl")) if ok else []):
                why = spec_on_impl(o)
                if why:
                    o["reqs"] = (o["reqs"] or [])[:20]
                    report(ctx, o, "[%d error-free requests, %d generator workers] %s" % (len(o["wire"] or []), o["n"], why))
            if ctx.findings:
                break
        t0 = _time.time()
        for rnd in range(6 if not ctx.findings else 0):
            for gmp, n in (("1", 150), ("2", 150), ("16", 300), ("4", 300)):
                for o in run_harness(ctx, n, ctx.seed + 100 + int(gmp) + 1000 * rnd, env={"GOMAXPROCS": gmp}, name="search_g%s.jsonl" % gmp):
                    why = spec_on_impl(o)
                    if why:
                        report(ctx, o, why)
                if ctx.findings:
                    break
            if ctx.findings or _time.time() - t0 > 150:
                break
    if ctx.broken and not ctx.findings and (any("PacketFiller" in n for n in getattr(ctx, "source_diff", []))
                                            or any("Fill" in str(b[0]) for b in ctx.broken)):
        # a packet filler changed: the commands hand ONE filler to all packet workers ("for every number of generator
        # workers"), so look for a written frame that is not the frame of its own request when the filler is shared by
        # 8 goroutines (driver and oracle of C05)
        from checks import c05
        if ctx.harness_build("c05"):
            for o in c05.run_harness(ctx, "filler_concurrent.jsonl", ["-seed", ctx.seed + 31, "-concurrent", 10 * c05.CONC_QUICK]):
                why = c05.spec_on_impl(o)
                if why:
                    why = "one %s filler shared by the packet workers (8 goroutines): the frame built is not the frame of its request: %s" % (
                        o.get("kind"), why)
                    path = ctx.write_replay("filler-%s" % o.get("kind"), {"property": "C07", "what": why, "case": c05.describe(o),
                                                                         "input": {k: o[k] for k in c05.INPUT_KEYS if k in o}})
                    ctx.findings.append({"key": "filler:" + str(o.get("kind")), "what": why, "replay": path})
                    break
    return ctx.finish(rule=RULE)


def replay(ctx, path):
    r = json.load(open(path))
    print(json.dumps({k: v for k, v in r.items() if k != "input"}, indent=1)[:3000])
    print("replay: the input script is in the file; rerun `bin/check C07` (schedule-dependent failures need the "
          "stress run, the script alone does not fix the schedule)")
    return 1


MANIFEST = {
    "technique": "Coq proof over an interleaving semantics of goroutine networks (potential-function conservation, "
                 "channel typing, ownership discipline, closed-and-drained chains), all N and all schedules; pinned "
                 "source skeletons + differential runs of the real engine against the executed model",
    "level_text": "C07_conservation, C07_no_panic, C07_fates, C07_done_after_last_write, C07_terminal hold for every "
                  "worker count, request stream, Fill/Write outcome and schedule of the modelled network; C07_shape ties "
                  "the hand-written behaviours to the goroutine structure extracted from the current sources; complete "
                  "runs of the real PacketEngine are compared with the model's terminal state and judged by the property.",
    "level_note": "Partial: the interleaving model covers all schedules of the modelled channel operations; data races "
                  "on memory outside channel discipline (buffer pool reuse) are visible only to the byte re-check of the "
                  "harness writer and to the race detector (thorough). Trusted: Coq kernel+VM, Net.v as the semantics of "
                  "Go channels, tools/gen skeleton extraction, harness mocks.",
    "design_ref": "DESIGN.md section 5 (C07), section 3 layer C",
}
