"""C20 -- the receiver survives every sequence of read faults as specified."""
import json
import os
import re

import verif

RULE = ("scripts of read outcomes over an alphabet of 38 REAL Go error values (bare/wrapped EAGAIN, ECONNRESET, timeout "
        "net.Errors, io.* values, EBADF, closed-file texts, unknown errors) + frames whose processing succeeds or fails: "
        "every single step, pairs, ALL sequences up to a length over the 8-letter class alphabet (with a random "
        "representative per letter), the same x every cancellation position, random scripts up to length 40 (scripted, "
        "asynchronous or no cancellation; drained or not), error bursts beyond the channel buffer, runs of cap-1 / cap / "
        "cap+1 / 2.5 cap unknown read errors with no frame between them (transients interleaved, consumer receiving) "
        "followed by frames; successful reads of frames of length 0 (nil and empty slice), 1, 2, 3, 4, 5, 6, 13, 14, 59, 60, "
        "1514 bytes, processing ok or failing, alone, after a transient / an unknown fault and in random scripts between "
        "faults (scripted, asynchronous or no cancellation) -- a frame of any length is a successfully read frame; the REAL afpacket.Source on lo of a private netns closed before / while receiving with the "
        "context live, idle, under traffic, on a veth whose link is set down while receiving (judged by the class of the "
        "value gopacket's own handle returns), and the value it returns once closed played through the mock; non-trivial = at "
        "least one fault or processor error in the script; distinct by (script, cancellation, consumer)")

CODES = {1: "frames handed to the processor differ from the model", 2: "errors on the channel differ from the model",
         3: "number of read calls differs from the model", 4: "closing of the error channel differs from the model",
         11: "Error() text of an alphabet entry differs from the model of the library",
         12: "net.Error-ness of an alphabet entry differs", 13: "Timeout() of an alphabet entry differs",
         14: "errors.Is of an alphabet entry differs", 15: "== of an alphabet entry differs"}

WORDS = {"t": "transient (would-block / timeout / connection reset)", "u": "unknown",
         "c": "closed or broken socket"}


# ------------------------------------------------------------------ Coq terms
def edesc_term(d):
    k = d["k"]
    if k == "sent":
        return "(ESent %s)" % verif.coq_string(d["name"])
    if k == "new":
        return "(ENew %s)" % verif.coq_string(d["text"])
    if k == "neterr":
        return "(ENetErr %s)" % verif.coq_bool(d.get("timeout", False))
    if k == "fmt":
        return "(EWrapFmt %s %s)" % (verif.coq_string(d["text"]), edesc_term(d["inner"]))
    return "(%s %s)" % ({"op": "EWrapOp", "sys": "EWrapSys"}[k], edesc_term(d["inner"]))


def edesc_text(d):
    k = d["k"]
    if k == "sent":
        return d["name"]
    if k == "new":
        return "errors.New(%r)" % d["text"]
    if k == "neterr":
        return "net.Error{Timeout:%s}" % str(d.get("timeout", False)).lower()
    if k == "fmt":
        return "fmt.Errorf(%r, %s)" % (d["text"] + ": %w", edesc_text(d["inner"]))
    return "%s(%s)" % ({"op": "&net.OpError", "sys": "os.SyscallError"}[k], edesc_text(d["inner"]))


def u16s(l):
    out = bytearray()
    for x in l:
        x = min(max(int(x), 0), 65535)
        out += bytes([x >> 8, x & 255])
    return bytes(out)


def case_term(o):
    return ("{| c_script := %s; c_drained := %s; c_cancel := %s; c_frames := %s; c_errs := %s; c_reads := %s; "
            "c_closed := %s |}") % (
        verif.coq_packed(bytes(o["played"])), verif.coq_bool(o["drained"]), verif.coq_z(o["cancel"]),
        verif.coq_packed(u16s(o["frames"])), verif.coq_packed(u16s(o["errs"])), verif.coq_z(o["reads"]),
        verif.coq_bool(o["closed"] and not o["stuck"]))


def case_file(alpha, rows):
    names = alpha["names"]
    body = ["From Coq Require Import ZArith String List Uint63.",
            "From SX Require Import Base.Bytes Model.Receiver Spec.C20.",
            "Import ListNotations.", "Open Scope string_scope.", "Open Scope Z_scope.",
            "Definition names : list string := [%s]." % "; ".join(verif.coq_string(n) for n in names),
            "Definition attrs : list errattr := ["]
    ats = []
    for a in alpha["alpha"]:
        ats.append("{| ea_err := %s; ea_text := %s; ea_neterr := %s; ea_timeout := %s; ea_is := %s; ea_eq := %s |}" % (
            edesc_term(a["d"]), verif.coq_packed(bytes(a["text"])),
            verif.coq_bool(a["neterr"]), verif.coq_bool(a["timeout"]),
            verif.coq_list([verif.coq_bool(b) for b in a["is"]]), verif.coq_list([verif.coq_bool(b) for b in a["eq"]])))
    body.append(";\n".join(ats))
    body.append("].")
    body.append("Definition alpha : list err_val := map ea_err attrs.")
    body.append("Definition cases : list case := [")
    body.append(";\n".join(case_term(o) for o in rows))
    body.append("].")
    body.append("Definition A := Eval vm_compute in check_alpha names 0 attrs.")
    body.append("Definition M := Eval vm_compute in check_all alpha 0 cases.")
    body.append("Definition L := Eval vm_compute in length cases.")
    body.append("Print A. Print M. Print L.")
    return "\n".join(body)


def parse_pairs(ctx, out, name):
    m = ctx.parse_result(out, name)
    res = []
    if m.strip() not in ("[]", "nil"):
        for idx, codes in re.findall(r"\((\d+), \[([^\]]*)\]\)", m):
            res.append((int(idx), [int(c.strip().strip("()")) for c in codes.split(";") if c.strip()]))
        if not res:
            raise verif.Broken("cannot parse mismatch list " + name, m[:500])
    return res


# ------------------------------------------------------------------ the property on the implementation alone
def step_text(alpha, c):
    if c < 64:
        return "frame"
    if c < 128:
        return "frame(processing fails: %s)" % edesc_text(alpha["alpha"][c - 64]["d"])
    return edesc_text(alpha["alpha"][c - 128]["d"])


def frame_len(o, i):
    lens = o.get("lens") or []
    return lens[i] if i < len(lens) else -1


def steps_text(alpha, o, codes=None):
    """The script of a case in words, with the scripted frame lengths."""
    out = []
    for i, c in enumerate(o["script"] if codes is None else codes):
        t = step_text(alpha, c)
        n = frame_len(o, i)
        if c < 128 and n >= 0:
            t = t.replace("frame", "frame[%d bytes%s]" % (n, (", nil slice" if i % 2 == 0 else ", empty slice") if n == 0 else ""), 1)
        out.append(t)
    return out


def spec_on_impl(o, alpha):
    """C20 judged on what the real receiver did. Returns None or (key, reason)."""
    A = alpha["alpha"]
    if o["stuck"] or not o["closed"]:
        return ("hang", "the receiver does not end: the error channel is not closed although the context was "
                        "cancelled (or the socket reported closed)")
    if o.get("never_drain") and not o.get("gone"):
        return ("cancel-does-not-end-blocked-receiver",
                "error burst of %d steps with nobody receiving from the error channel, context cancelled once the receiver "
                "sat in the report of error %d: %d ms later the receiver goroutine is still there (it only ended once the "
                "harness took an error; %d errors delivered): cancellation must end reading" % (
                    len(o["script"]), len(o["errs"]), o.get("gone_ms", 0), len(o["errs"])))
    played, reads, cancel = o["played"], o["reads"], o["cancel"]
    prefix = played[:reads]
    exp_frames = [i for i, c in enumerate(prefix) if c < 128]
    if o["frames"] != exp_frames:
        got = o["frames"]
        if len(set(got)) != len(got):
            why = "a frame is processed twice"
        elif set(got) - set(exp_frames):
            why = "something that was not read as a frame is processed"
        elif sorted(got) != got:
            why = "frames are processed out of order"
        else:
            why = "a successfully read frame is not processed"
        lost = [i for i in exp_frames if i not in got]
        sized = ["the frame read at position %d has length %d" % (i, frame_len(o, i)) for i in lost if frame_len(o, i) >= 0]
        return ("frames", "%s: read frames at positions %s, processed %s%s" % (
            why, exp_frames, got, (" (" + "; ".join(sized[:4]) + "; the read returned it with a nil error)") if sized else ""))
    if o.get("bad_ci"):
        return ("frames", "a frame is processed with another frame's capture info or with other bytes than were read")
    errs = o["errs"]
    prev = -1
    for code in errs:
        pos, src = code // 2, code % 2
        if code == 65535 or pos >= reads:
            return ("errors", "an error that no read call or processor call of this run returned is on the channel")
        c = prefix[pos]
        if (src == 1 and not 64 <= c < 128) or (src == 0 and c < 128):
            return ("errors", "an error is attributed to position %d (%s) which did not produce it" % (pos, step_text(alpha, c)))
        if code <= prev:
            return ("errors", "errors are reported twice or out of order: %s" % errs)
        prev = code
    reported = set(errs)
    last = reads - 1
    if cancel >= 0 and reads > cancel + 1:
        return ("cancel", "reading continues after cancellation: cancelled during read call %d, %d read calls made"
                % (cancel, reads))
    if cancel == -1 and reads > 0:
        return ("cancel", "a read call is made although the context was cancelled before the start")
    for i, c in enumerate(prefix):
        is_last = i == last
        if c < 64:
            continue
        if c < 128:
            if 2 * i + 1 not in reported and not (is_last and cancel == i):
                return ("proc-error", "the processing error of the frame at position %d is not reported" % i)
            continue
        ent = A[c - 128]
        allowed = ent["allowed"]
        from_closed_source = o.get("closed_src_at", 0) == i and i > 0
        if from_closed_source:
            allowed = "c"     # the real afpacket.Source returns this value once it is closed
        if 2 * i in reported:
            handled = "u"
        elif is_last and cancel == i:
            continue          # cancelled during this call: every outcome ends here
        elif is_last:
            handled = "c"
        else:
            handled = "t"
        if handled not in allowed:
            how = {"u": "reported as an unknown error", "c": "treated as the end of the socket (reading stops)",
                   "t": "silently retried"}[handled]
            return ("class:%s:%s" % (edesc_text(ent["d"]), handled),
                    "%s at position %d is %s, the property says: %s%s" % (
                        edesc_text(ent["d"]), i, how, " or ".join(WORDS[a] for a in allowed),
                        " (this is the value the real pkg/packet/afpacket.Source returns once it is closed)"
                        if from_closed_source else ""))
    if cancel == -2:
        if reads == 0 or prefix[last] < 128:
            return ("ends", "the receiver ended without cancellation and without a closed or broken socket")
        if 2 * last in reported:
            return ("ends-after-unknown", "%s at position %d is reported as an unknown error and then reading stops "
                                          "(unknown failures must not end reading)" % (step_text(alpha, prefix[last]), last))
    return None


def source_spec(o):
    """The REAL afpacket.Source on lo read by the real receiver. Returns None or (key, reason)."""
    errs = "; ".join("%s x%d%s" % (e["name"] or repr(e["text"]), e["count"], (" (after the link went down)" if o.get("link_down") else " (after Close)") if e["after_close"] else "")
                     for e in o["read_errors"]) or "none"
    what = "real afpacket.Source on lo, %s, %s" % (
        "UDP traffic every 2 ms" if o["traffic"] else "no traffic",
        "closed before the receiver starts" if o["closed_at_ms"] == 0 else
        "closed after %d ms with the context NOT cancelled" % o["closed_at_ms"] if o["closed_at_ms"] > 0 else
        "context cancelled after %d ms" % o["cancel_at_ms"])
    if o.get("link_down"):
        lib = o.get("control_err") or repr(o.get("control_text", ""))
        if not o.get("control_err") and not o.get("control_text"):
            return None       # the library reported nothing special for the downed link: nothing to judge
        allowed = o.get("control_allowed") or "u"
        what = ("real afpacket.Source on a veth, receiver running, link set down after 300 ms: gopacket's own handle on the "
                "same interface returns %s (%s)" % (lib, " or ".join(WORDS[a] for a in allowed)))
        if o.get("reported_before", 0) > 0:
            return ("source-error-reported", "%s; %d errors were reported while the link was still healthy and quiet: %s" % (
                what, o["reported_before"], o["reported_examples"][:2]))
        if allowed == "u" and o.get("reported_after", 0) < 2:
            return ("poll-failure-not-reported",
                    "%s, i.e. an unknown failure that must be reported once per failed read while reading continues (the model "
                    "classifies %s as Unknown); the Source returned %s in %d read calls after the link went down and the "
                    "receiver reported %d error(s) in %d ms" % (what, lib, errs, o.get("reads_after", 0),
                                                                o.get("reported_after", 0), o["waited_ms"]))
        if not o["ended"]:
            return ("hang", "%s: the error channel is not closed %d ms after the cancellation" % (what, o["waited_ms"]))
        return None
    if not o["ended"]:
        if o["closed_at_ms"] >= 0:
            return ("closed-source-keeps-reading",
                    "%s: the receiver is still reading %d ms after the close (a closed socket must end reading); "
                    "%d read calls, read errors: %s; %d errors reported, e.g. %s" % (
                        what, o["waited_ms"], o["reads"], errs, o["reported"], o["reported_examples"][:2]))
        return ("hang", "%s: the error channel is not closed %d ms after the cancellation" % (what, o["waited_ms"]))
    if o["reported"] > 0:
        return ("source-error-reported", "%s: %d errors reported (%s) although the socket only timed out, delivered frames "
                                         "or was closed; read errors: %s" % (what, o["reported"], o["reported_examples"][:2], errs))
    if o["traffic"] and o["frames"] == 0:
        return ("source-frames-lost", "%s: no frame reached the processor in %d read calls; read errors: %s" % (
            what, o["reads"], errs))
    return None


def describe(alpha, o):
    return {"script": steps_text(alpha, o), "script_codes": o["script"], "frame_lengths": o.get("lens"), "drained": o["drained"],
            "cancel_requested": o["cancel_req"], "async_us": o["async_us"]}


def report(ctx, alpha, o, key, why):
    tag = "%s-%d" % (re.sub(r"\W+", "_", key)[:40], len(ctx.findings))
    path = ctx.write_replay(tag, {
        "property": "C20", "what": why,
        "input": {"class": o["class"], "script": o["script"], "drained": o["drained"], "cancel_req": o["cancel_req"],
                  "async_us": o["async_us"], "closed_src_at": o.get("closed_src_at", 0),
                  "never_drain": o.get("never_drain", False), **({"lens": o["lens"]} if o.get("lens") else {})},
        "readable": describe(alpha, o),
        "observed": {k: o[k] for k in ("played", "cancel", "frames", "errs", "reads", "closed", "stuck")},
        "replay_cmd": "bin/check C20 --replay <this file>"})
    ctx.findings.append({"key": key, "what": why, "replay": path})


def minimise(ctx, alpha, o, key, deadline):
    """Shrink a failing script on the real code: delete chunks (halving the chunk size) while the same
    finding key still fails; bounded by a wall-clock deadline."""
    import time
    cur = dict(o)
    chunk = max(1, len(cur["script"]) // 2)
    while chunk >= 1 and time.time() < deadline:
        i, progressed = 0, False
        while i < len(cur["script"]) and time.time() < deadline:
            scr = cur["script"][:i] + cur["script"][i + chunk:]
            lens = cur.get("lens")
            lens = lens[:i] + lens[i + chunk:] if lens else None
            if not scr:
                i += chunk
                continue
            creq = cur["cancel_req"]
            if creq >= 0:
                if i + chunk <= creq:
                    creq -= chunk
                elif i <= creq:
                    i += chunk
                    continue          # keep the step the cancellation is tied to
            if cur.get("closed_src_at", 0):
                break                 # already minimal: frame, the closed source's error, frame
            cand = {"class": cur["class"], "script": scr, "drained": cur["drained"], "cancel_req": creq,
                    "async_us": cur["async_us"]}
            if lens:
                cand["lens"] = lens
            got = run_one(ctx, cand)
            r = spec_on_impl(got, alpha) if got else None
            if r and r[0] == key:
                cur, progressed = got, True
            else:
                i += chunk
        if chunk == 1 and not progressed:
            break
        chunk = chunk // 2 if chunk > 1 else 1
        if chunk == 1 and len(cur["script"]) > 60:
            break                     # long bursts: single-step deletion is not worth the time
    return cur


def run_one(ctx, inp, extra=()):
    p = os.path.join(ctx.work, "one-in.json")
    with open(p, "w") as f:
        json.dump(inp, f)
    ok, _ = ctx.harness_run("c20", ["-out", "one.jsonl", "-replay", p] + list(extra), timeout=120)
    if not ok:
        ctx.broken.pop()
        return None
    rows = ctx.read_jsonl(os.path.join(ctx.work, "one.jsonl"))
    return rows[1] if len(rows) > 1 else None


def judge(ctx, alpha, rows, limit=3):
    import time
    seen = set()
    deadline = time.time() + 25
    # shortest failing scripts first: they make the most readable replays
    bad = []
    for o in rows:
        r = spec_on_impl(o, alpha)
        if r:
            bad.append((len(o["script"]), r, o))
    bad.sort(key=lambda t: t[0])
    for _, r, o in bad:
        if r[0] in seen or len(seen) >= limit:
            continue
        if r[0] == "cancel-does-not-end-blocked-receiver":
            # a wall-clock judgement: repeated twice (one case at a time, three times the waiting time) before it is believed
            import time as _t
            ok_again = False
            for attempt in range(2):
                _t.sleep(1.0)
                again = run_one(ctx, {k: o[k] for k in ("class", "script", "drained", "cancel_req", "async_us", "never_drain")},
                                extra=["-goneWait", 9000])
                if again is not None and not spec_on_impl(again, alpha):
                    ok_again = True
                    break
            if ok_again:
                ctx.info.append("a blocked receiver that had not ended 3 s after the cancellation did end when the case was "
                                "repeated: attributed to the load of the machine")
                continue
            seen.add(r[0])
            report(ctx, alpha, o, r[0], r[1] + " (repeated: failed 3 times out of 3)")
            continue
        if r[0] == "hang":
            # a watchdog finding is re-run once before it is believed
            again = run_one(ctx, {k: o[k] for k in ("class", "script", "drained", "cancel_req", "async_us", "lens") if k in o})
            if again is not None and not spec_on_impl(again, alpha):
                ctx.info.append("a run that hit the watchdog ended normally when repeated: attributed to the load of the machine")
                continue
        seen.add(r[0])
        small = minimise(ctx, alpha, o, r[0], deadline)
        r2 = spec_on_impl(small, alpha) or r
        report(ctx, alpha, small, r2[0], r2[1])
    return len(bad)


def run(ctx):
    quick = ctx.tier == "quick"
    ctx.trusted += [
        "Go channels/select/context behave as Model/Receiver.v assumes (buffered send, select picks any ready case)",
        "the structural model of Go error values (Error() text, Unwrap chain, net.Error/Timeout methods of syscall.Errno, "
        "*net.OpError, *os.SyscallError, fmt wrappers, io.*/os.*/context.* values) -- measured on the real values on "
        "every run and compared with the model (check_alpha)",
        "scripted Reader/Processor mocks stand for the socket and the packet processor"]
    ctx.assumptions += ["the 5 ms sleep after an unknown error is not part of the claim",
                        "a cancellation that arrives while the goroutine is blocked in a send is the cancellation "
                        "'during that read call' of the model"]
    gen_ok = ctx.gen()
    model_ok = gen_ok and ctx.coq_model(["Spec/C20.vo"])
    proof_ok = gen_ok and ctx.coq_proofs("Properties/C20.v")
    rows, alpha, sources = [], None, []
    if ctx.harness_build("c20"):
        args = ["-out", "cases.jsonl", "-seed", ctx.seed, "-corpus", os.path.join(verif.ROOT, "corpus", "C20")]
        if quick:
            args += ["-n", 1500, "-exh", 3, "-exhc", 2, "-pairs", 600, "-bursts", 16, "-runs", 2, "-lens", 300, "-source"]
        else:
            args += ["-n", 20000, "-exh", 5, "-exhc", 4, "-pairs", -1, "-bursts", 120, "-runs", 6, "-lens", 4000, "-source"]
        ok, _ = ctx.harness_run("c20", args, timeout=1500)
        if ok:
            allrows = ctx.read_jsonl(os.path.join(ctx.work, "cases.jsonl"))
            alpha = allrows[0]
            rows = [o for o in allrows[1:] if o["kind"] == "case"]
            sources = [o for o in allrows[1:] if o["kind"] == "source"]
    for o in sources:
        if o.get("skipped"):
            ctx.skipped.append("real afpacket.Source: " + o["skipped"])
            continue
        ctx.count("real-source:" + o["scenario"], ("source", o["scenario"]), nontrivial=True,
                  sample={"real_source": o["scenario"], "ended": o["ended"], "ended_ms": o["ended_ms"], "reads": o["reads"],
                          "frames": o["frames"], "reported": o["reported"], "read_errors": o["read_errors"]})
        r = source_spec(o)
        if r and r[0] not in [f["key"] for f in ctx.findings]:
            # every judgement of this stage waits for something (the receiver to end, frames to arrive): on a starved
            # machine a miss may be the machine. The scenarios are repeated, after a pause and with three times the
            # waiting time, up to two more times; only a scenario that fails every time is reported.
            import time
            for attempt in range(2):
                time.sleep(1.5)
                ok, _ = ctx.harness_run("c20", ["-out", "confirm.jsonl", "-n", 0, "-exh", 0, "-exhc", 0, "-pairs", 0,
                                                "-bursts", 0, "-runs", 0, "-lens", 0, "-source", "-srcwait", 6000], timeout=300)
                if not ok:
                    ctx.broken.pop()
                    continue
                again = [x for x in ctx.read_jsonl(os.path.join(ctx.work, "confirm.jsonl"))
                         if x.get("kind") == "source" and x.get("scenario") == o["scenario"] and not x.get("skipped")]
                if not again:
                    continue
                r2 = source_spec(again[0])
                if not r2:
                    ctx.info.append("real afpacket.Source, %s: '%s' was not reproduced when the scenario was repeated: "
                                    "attributed to the load of the machine, not reported" % (o["scenario"], r[1][:160]))
                    r = None
                    break
                o, r = again[0], r2
            if r is None:
                continue
            r = (r[0], r[1] + " (the scenario was repeated: it failed every time)")
            path = ctx.write_replay("source-%s" % o["scenario"], {
                "property": "C20", "what": r[1], "input": {"source": True, "scenario": o["scenario"]}, "observed": o,
                "replay_cmd": "bin/check C20 --replay <this file>"})
            ctx.findings.append({"key": r[0], "what": r[1], "replay": path})
    for o in rows:
        key = (tuple(o["played"]), o["cancel"], o["drained"])
        if o.get("lens"):
            key += (tuple(o["lens"]),)
        ctx.count(o["class"], key, nontrivial=any(c >= 64 for c in o["script"]),
                  sample={"script": steps_text(alpha, o)[:12], "drained": o["drained"],
                          "cancelled_during_read": o["cancel"], "frames": o["frames"][:12], "errs": o["errs"][:12],
                          "reads": o["reads"], "closed": o["closed"]})
    if rows:
        judge(ctx, alpha, rows)
    if model_ok and rows:
        nshards = 16 if quick else 48
        size = max(1, (len(rows) + nshards - 1) // nshards)
        parts = [rows[i:i + size] for i in range(0, len(rows), size)]
        outs = ctx.coq_eval_many([("cases_%d" % i, case_file(alpha, p)) for i, p in enumerate(parts)])
        first = True
        for part, out in zip(parts, outs):
            n_model = int(ctx.parse_result(out, "L"))
            if n_model != len(part):
                raise verif.Broken("case count differs between harness and model (%d vs %d)" % (len(part), n_model))
            if first:
                first = False
                for idx, codes in parse_pairs(ctx, out, "A"):
                    ctx.broken.append(("correspondence: error value %s: %s" % (
                        edesc_text(alpha["alpha"][idx]["d"]), "; ".join(CODES[c] for c in codes)),
                        json.dumps(alpha["alpha"][idx])[:600]))
            for idx, codes in parse_pairs(ctx, out, "M"):
                o = part[idx]
                ctx.broken.append(("correspondence: script %s cancel=%s drained=%s: %s" % (
                    steps_text(alpha, o, o["played"])[:10], o["cancel"], o["drained"],
                    "; ".join(CODES[c] for c in codes)), json.dumps(o)[:700]))
            ctx.cov["traces_validated_against_impl"] += len(part)
    if ctx.broken and not ctx.findings and os.path.exists(os.path.join(verif.HBIN, "c20")):
        # a proof or the tie broke: look harder for a concrete failing input on the real code
        ok, _ = ctx.harness_run("c20", ["-out", "search.jsonl", "-seed", ctx.seed + 7, "-n", 8000, "-exh", 4, "-exhc", 3,
                                        "-pairs", -1, "-bursts", 40, "-lens", 2000], timeout=1500)
        if ok:
            more = ctx.read_jsonl(os.path.join(ctx.work, "search.jsonl"))
            judge(ctx, more[0], [o for o in more[1:] if o["kind"] == "case"])
    return ctx.finish(rule=RULE)


def replay(ctx, path):
    r = json.load(open(path))
    if "input" not in r:
        print(json.dumps(r, indent=1))
        return 1
    if not ctx.harness_build("c20"):
        return 1
    if r["input"].get("source"):
        ok, _ = ctx.harness_run("c20", ["-out", "one.jsonl", "-n", 0, "-exh", 0, "-exhc", 0, "-pairs", 0, "-bursts", 0,
                                        "-runs", 0, "-lens", 0, "-source"], timeout=300)
        if not ok:
            return 1
        bad = 0
        for o in ctx.read_jsonl(os.path.join(ctx.work, "one.jsonl"))[1:]:
            if o["kind"] != "source":
                continue
            why = None if o.get("skipped") else source_spec(o)
            print("real afpacket.Source, %s: %s" % (o["scenario"], o.get("skipped") or (why[1] if why else
                  "property holds (ended after %d ms, %d frames, nothing reported)" % (o["ended_ms"], o["frames"]))))
            bad += 1 if why else 0
        return 1 if bad else 0
    bad = 0
    for attempt in range(5 if r["input"].get("async_us", -1) >= 0 else 1):
        p = os.path.join(ctx.work, "one-in.json")
        with open(p, "w") as f:
            json.dump(r["input"], f)
        ok, _ = ctx.harness_run("c20", ["-out", "one.jsonl", "-replay", p], timeout=120)
        if not ok:
            return 1
        rows = ctx.read_jsonl(os.path.join(ctx.work, "one.jsonl"))
        alpha, o = rows[0], rows[1]
        why = spec_on_impl(o, alpha)
        print("replay %s cancel_req=%s drained=%s -> frames=%s errs=%s reads=%d closed=%s: %s" % (
            steps_text(alpha, o), o["cancel_req"], o["drained"], o["frames"], o["errs"], o["reads"],
            o["closed"], why[1] if why else "property holds on this input"))
        bad += 1 if why else 0
    return 1 if bad else 0


MANIFEST = {
    "technique": "Coq proof by induction over all finite fault scripts (executable model of the ReceivePackets loop and "
                 "of the error classification over a structural model of Go error values) + classification lists and "
                 "channel capacity translated from receiver.go + differential correspondence against the real receiver "
                 "with scripted Reader/Processor mocks returning real error values",
    "level_text": "21 theorems (frames once in order, none twice, every read frame processed; transient silent; unknown and processor errors reported once in "
                  "order; reading continues until a closed/broken socket; closed ends; cancel ends; burst blocks at "
                  "capacity and is released by cancel; which errors are transient / end reading, both directions) hold for "
                  "ALL scripts, capacities, consumers, cancellation positions and select outcomes; the model is compared "
                  "with the real receiver on every step, all short sequences, random long ones and bursts > 100.",
    "level_note": "Trusted: Coq kernel + VM, Go channel/select/context semantics as modelled, the structural model of "
                  "library error values (re-measured and compared on every run), mocks for socket and processor. No "
                  "axioms. The 5 ms sleep is outside the claim.",
    "design_ref": "DESIGN.md section 5 (C20)",
}
