"""C19 -- live mode: complete passes repeat until cancelled."""
import json
import os
import re

import verif

RULE = ("scripted delegate generators: 1-5 passes of 0-6 requests (rendezvous runs, exact event traces) or 0-260 requests "
        "over channels of capacity 1/2/7/100 (buffered runs, as in `sx arp --live`), a failing pass at a random position "
        "(also the first), rescan intervals 5-25 ms; cancellation before the start, after a random number of events / "
        "received requests, at EVERY event index of some short scripts, or only once the script is used up; consumers so "
        "slow that a pass lasts 2.5 x the interval (scripted delegate that honours its context like the generators of "
        "pkg/scan, and the REAL NewIPRequestGenerator(NewIPGenerator()) over a /28 or /27, three passes); end to end "
        "`sx arp --live` in a netns (/29, with exclusions; thorough and failing-input search: a /20 with --rate so that a "
        "pass outlasts the interval and the pipeline buffers); non-trivial = at least two delegate calls or a cancellation inside a pass; distinct by (script, capacity, cancel point)")

TOL_NS = 1000000   # time stamps are compared as inequalities with 1 ms of tolerance

CODES = {1: "start (error or not) differs from the model", 2: "the run did not end with out closed",
         3: "the requests received differ from what the accepted moves sent"}
SEQ_CODES = {1: "output is not a subsequence of the generated passes", 2: "output before the cancellation is not the "
             "beginning of the concatenation of the passes", 3: "a pass started earlier than the interval after the "
             "previous one ended", 4: "out not closed after the cancellation", 5: "delegate called again after a failed "
             "pass", 6: "more output than generated"}


def zl(l):
    return "[" + ";".join(verif.coq_z(x) for x in l) + "]"


def script_term(script):
    return "[" + "; ".join("Fail" if p["fail"] else "Pass (map Z.to_nat %s)" % zl(p["reqs"]) for p in script) + "]"


def event_term(e):
    k = e[0]
    if k == "D":
        return "VD (Z.to_nat %d)" % e[1]
    if k == "O":
        return "VO (Z.to_nat %d)" % e[1]
    if k == "C":
        return "VC %s" % verif.coq_z(e[1])
    if k == "G":
        return "VG (Z.to_nat %d) %s" % (e[1], verif.coq_z(e[2]))
    return {"K": "VK", "X": "VX"}[k]


def tcase_term(o):
    return ("{| t_script := %s; t_rescan := %s; t_start_err := %s; t_trace := [%s]; t_outs := map Z.to_nat %s |}" % (
        script_term(o["effective"]), verif.coq_z(o["rescan_us"] * 1000 - TOL_NS), verif.coq_bool(o["start_err"]),
        "; ".join(event_term(e) for e in o["trace"]), zl(o["outs"])))


def scase_term(o):
    return ("{| q_script := %s; q_rescan := %s; q_calls := Z.to_nat %d; q_before := Z.to_nat %d; q_outs := map Z.to_nat %s; "
            "q_closed := %s; q_starts := %s; q_closes := %s |}" % (
                script_term(o["effective"]), verif.coq_z(o["rescan_us"] * 1000 - TOL_NS), o["calls"], o["before"],
                zl(o["outs"]), verif.coq_bool(o["closed"] and not o["stuck"]), zl(o["starts"] or []), zl(o["closes"] or [])))


def case_file(traces, seqs):
    body = ["From Coq Require Import ZArith String List.", "From SX Require Import Model.Live Spec.C19.",
            "Import ListNotations.", "Open Scope Z_scope.",
            "Definition tcases : list tcase := [", ";\n".join(tcase_term(o) for o in traces), "].",
            "Definition scases : list scase := [", ";\n".join(scase_term(o) for o in seqs), "].",
            "Definition MT := Eval vm_compute in check_all check_trace 0 tcases.",
            "Definition MS := Eval vm_compute in check_all check_seq 0 scases.",
            "Definition LT := Eval vm_compute in List.length tcases.",
            "Definition LS := Eval vm_compute in List.length scases.",
            "Print MT. Print MS. Print LT. Print LS."]
    return "\n".join(body)


def parse_pairs(ctx, out, name):
    m = ctx.parse_result(out, name)
    res = []
    if m.strip() not in ("[]", "nil"):
        for idx, codes in re.findall(r"\((\d+), \[([^\]]*)\]\)", m):
            res.append((int(idx), [int(c.strip().strip("()")) for c in codes.split(";") if c.strip()]))
        if not res:
            raise verif.Broken("cannot parse mismatch list " + name, m[:500])
    return res


# ------------------------------------------------------------------ the property on the implementation alone
def is_subseq(a, b):
    it = iter(b)
    return all(any(x == y for y in it) for x in a)


def spec_on_impl(o):
    """C19 judged on what the real live generator did. Returns None or (key, reason)."""
    script = o["effective"]
    if o["stuck"]:
        return ("hang", "the live generator does not end: out is not closed after the cancellation")
    if script[0]["fail"]:
        if not o["start_err"]:
            return ("start", "the first pass fails to start but GenerateRequests returns no error")
        if not o["nil_on_err"]:
            return ("start", "GenerateRequests returns an error together with a channel")
        return None
    if o["start_err"]:
        return ("start", "GenerateRequests fails although the first pass starts")
    if not o["closed"]:
        return ("not-closed", "out is not closed after the cancellation")
    first_fail = next((i for i, p in enumerate(script) if p["fail"]), None)
    calls = o["calls"]
    starts = o["starts"] or []
    if first_fail is not None and calls > first_fail + 1:
        # the property forbids a crash or a busy loop after a pass that fails to start; retrying after the
        # interval would be allowed (the code does not retry at all, which the model pins down)
        for k in range(first_fail, min(calls, len(starts)) - 1):
            if starts[k + 1] - starts[k] < o["rescan_us"] * 1000 - TOL_NS:
                return ("busy-loop", "after the pass number %d failed to start the delegate is called again only %.3f ms "
                                     "later (interval %.3f ms): a busy loop" % (
                                         first_fail, (starts[k + 1] - starts[k]) / 1e6, o["rescan_us"] / 1000.0))
    # cancellation between two passes: no pass may be started (long) after the cancellation. A call right after it can
    # be the legitimate race of the expiring timer with ctx.Done; one that comes more than 600 ms later cannot.
    if o["kind"] == "trace":
        tk = None
        for e in o["trace"]:
            if e[0] == "K" and len(e) > 1:
                tk = e[1]
            elif e[0] == "G" and tk is not None and e[2] - tk > 600e6:
                return ("pass-after-cancel", "delegate call %d (a new pass) is made %.0f ms after the cancellation, which came "
                                             "while the generator paused between two passes (interval %.0f ms): cancellation "
                                             "between passes does not end the stream" % (e[1], (e[2] - tk) / 1e6,
                                                                                         o["rescan_us"] / 1000.0))
    gen = [r for p in script[:calls] if not p["fail"] for r in p["reqs"]]
    allr = [r for p in script if not p["fail"] for r in p["reqs"]]
    outs = o["outs"]
    if len(set(outs)) != len(outs):
        return ("duplicate", "a request is sent twice: %s" % outs[:40])
    if not is_subseq(outs, gen):
        return ("order", "the output is not the passes in order (reordered, invented, or from a pass that was never "
                         "generated): got %s, generated %s" % (outs[:40], gen[:40]))
    # everything received before the cancellation must be exactly the beginning of the concatenation
    if o["kind"] == "trace":
        before = []
        for e in o["trace"]:
            if e[0] == "K":
                break
            if e[0] == "O":
                before.append(e[1])
    else:
        before = outs[:o["before"]]
    if before != allr[:len(before)]:
        return ("incomplete", "before the cancellation a request is missing or out of place (a pass is incomplete): "
                              "received %s, the passes are %s" % (before[:40], allr[:40]))
    # the next pass starts no earlier than the interval after the previous one ended
    closes = o["closes"] or []
    for k in range(min(len(closes), len(starts) - 1)):
        if starts[k + 1] - closes[k] < o["rescan_us"] * 1000 - TOL_NS:
            return ("interval", "pass %d starts %.3f ms after pass %d ended, the rescan interval is %.3f ms" % (
                k + 1, (starts[k + 1] - closes[k]) / 1e6, k, o["rescan_us"] / 1000.0))
    # passes keep coming: a run that was only cancelled once the script was used up (or a pass failed) must have
    # generated every pass before that and delivered all of them
    if o["cancel_after"] >= (1 << 29) and not o.get("cancel_pause_ms") and \
            not (first_fail is not None and calls > first_fail + 1):
        want_calls = first_fail + 1 if first_fail is not None else len(script)
        if calls < want_calls:
            return ("stops", "passes stop coming: %d delegate calls, %d expected before the cancellation" % (calls, want_calls))
        if o["kind"] == "trace" and outs != gen:
            return ("incomplete", "without cancellation inside a pass the output must be all passes: got %s, passes %s"
                    % (outs[:40], gen[:40]))
    return None


def e2e_spec(o):
    """`sx arp --live` on the wire: complete passes, spaced by the interval, exclusions in every pass, one report per
    host, exit on SIGINT. Returns None or (key, reason)."""
    import ipaddress
    net = ipaddress.ip_network(o["subnet"])
    want = [str(a) for a in net if str(a) not in set(o["exclude"])]
    reqs = [a for a in o["seen"] if a["op"] == 1 and a["sender"] == o["src_ip"]]
    if not o["exited"]:
        return ("e2e-hang", "sx arp --live does not exit after SIGINT")
    if o["sigint"] == 0:
        return ("e2e-ended", "sx arp --live ended by itself after %.0f ms (exit code %d): %s" % (
            (o["exit"] - o["start"]) / 1e6, o["exit_code"], o["stderr"][:200]))
    if o["exit_code"] != 0:
        return ("e2e-exit", "sx arp --live exits with code %d after SIGINT: %s" % (o["exit_code"], o["stderr"][:200]))
    n = len(want)
    if o.get("rate", 0) > 0:
        # a rate-limited scan of a subnet bigger than the buffers of the pipeline: a pass lasts longer than the
        # interval; on the wire consecutive passes touch (the packet workers reorder around the boundary), so the
        # passes are judged by how often each address was probed: after k complete passes and a partial one every
        # address has been probed k or k+1 times
        import collections
        cnt = collections.Counter(a["target"] for a in reqs)
        foreign = [t for t in cnt if t not in want]
        if foreign:
            return ("e2e-foreign", "%s is probed although excluded or outside %s" % (foreign[0], o["subnet"]))
        m = max(cnt.values()) if cnt else 0
        low = [t for t in want if cnt.get(t, 0) < m - 1]
        if m >= 2 and len(low) > 0.02 * n:
            hist = collections.Counter(cnt.get(t, 0) for t in want)
            return ("e2e-pass-incomplete",
                    "sx arp --live %dms --rate %d/s %s (a pass needs %.0f ms): %d of %d addresses were probed fewer than %d "
                    "times while others were probed %d times (probes per address -> addresses: %s), e.g. %s: passes after "
                    "the first are not complete" % (o["interval_ms"], o["rate"], o["subnet"], 1000.0 * n / o["rate"],
                                                    len(low), n, m - 1, m, dict(sorted(hist.items())), low[:3]))
        if reqs and (o["sigint"] - reqs[0]["t"]) / 1e6 >= 2.5 * (1000.0 * n / o["rate"] + o["interval_ms"]) + 300 and m < 2:
            return ("e2e-stops", "no address was probed twice: passes do not keep coming")
        passes = []
    else:
        passes = [reqs[i:i + n] for i in range(0, len(reqs), n)]
    for k, p in enumerate(passes):
        tg = [a["target"] for a in p]
        full = len(p) == n
        if any(t not in want for t in tg):
            bad = [t for t in tg if t not in want][0]
            return ("e2e-foreign", "pass %d probes %s which is excluded or outside %s" % (k, bad, o["subnet"]))
        if len(set(tg)) != len(tg) or (full and sorted(tg) != sorted(want)):
            return ("e2e-pass", "pass %d on the wire is not every address exactly once: %s" % (k, tg))
    # receive times are the kernel's; what remains is the lag of sx's own pipeline, which grows when the machine is
    # starved: the scheduling jitter the harness measured during the run is added to the tolerance
    tol = max(40.0, o["interval_ms"] / 4.0) + o.get("jitter_ms", 0.0)
    for k in range(len(passes) - 1):
        gap = (passes[k + 1][0]["t"] - passes[k][-1]["t"]) / 1e6
        if gap < o["interval_ms"] - tol:
            return ("e2e-interval", "pass %d starts %.0f ms after pass %d ended, the interval is %d ms" % (
                k + 1, gap, k, o["interval_ms"]))
    if reqs and not o.get("rate", 0):
        complete = sum(1 for p in passes if len(p) == n)
        span = (o["sigint"] - reqs[0]["t"]) / 1e6
        if span >= 2 * o["interval_ms"] + 250 and complete < 2:
            return ("e2e-stops", "only %d complete pass(es) in the %.0f ms between the first probe and SIGINT "
                                 "(interval %d ms): passes do not keep coming" % (complete, span, o["interval_ms"]))
    ips = []
    for l in o["stdout"]:
        try:
            ips.append(json.loads(l).get("ip"))
        except ValueError:
            return ("e2e-output", "a line of the output is not JSON: %r" % l[:80])
    if len(set(ips)) != len(ips):
        return ("e2e-repeat", "a host is reported more than once in live mode: %s" % ips)
    if any(i not in want for i in ips):
        return ("e2e-output", "a host outside the targets is reported: %s" % ips)
    return None


def real_spec(o):
    """The REAL generator chain of sx arp behind the live generator, consumer slower than the interval: every pass
    must still be every address of the subnet exactly once."""
    import ipaddress
    if o["stuck"] or not o["closed"]:
        return ("hang", "the live generator over the real generators does not end after the cancellation")
    want = sorted(str(a) for a in ipaddress.ip_network(o["real"]))
    n = len(want)
    got = o["out_ips"][:o["before"]] if o["before"] else o["out_ips"]
    took = o["consume_us"] * n / 1000.0
    for k in range(0, len(got) // n):
        p = got[k * n:(k + 1) * n]
        if sorted(p) != want:
            missing = [a for a in want if a not in p]
            return ("real-pass-incomplete",
                    "real generators over %s behind NewLiveRequestGenerator(%.1f ms), consumer taking %.1f ms per request "
                    "(a pass lasts %.0f ms): pass %d is not every address exactly once: %d distinct of %d, missing e.g. %s%s"
                    % (o["real"], o["rescan_us"] / 1000.0, o["consume_us"] / 1000.0, took, k, len(set(p)), n, missing[:3],
                       "; the delegate was handed a context with a deadline for call(s) %s" % [
                           i for i, d in enumerate(o["deadlines"]) if d] if any(o["deadlines"]) else ""))
    starts = o["starts"]
    for k in range(len(starts) - 1):
        # a pass of the slow consumer lasts `took`; the next delegate call comes no earlier than interval after its start
        if starts[k + 1] - starts[k] < o["rescan_us"] * 1000 - TOL_NS:
            return ("interval", "delegate call %d comes %.3f ms after call %d, the interval is %.3f ms" % (
                k + 1, (starts[k + 1] - starts[k]) / 1e6, k, o["rescan_us"] / 1000.0))
    return None


def report(ctx, o, key, why):
    tag = "%s-%d" % (re.sub(r"\W+", "_", key)[:30], len(ctx.findings))
    path = ctx.write_replay(tag, {
        "property": "C19", "what": why,
        "input": {"class": o["class"], "script": o["script"], "cap": o["cap"], "rescan_us": o["rescan_us"],
                  "cancel_after": o["cancel_after"], "consume_us": o.get("consume_us", 0),
                  "cancel_pause_ms": o.get("cancel_pause_ms", 0)},
        "observed": {k: o[k] for k in ("trace", "outs", "calls", "before", "closed", "starts", "closes", "stuck", "start_err")},
        "replay_cmd": "bin/check C19 --replay <this file>"})
    ctx.findings.append({"key": key, "what": why, "replay": path})


def confirm_e2e(ctx, o, r, sx, big):
    """A finding of an end-to-end run may be the machine, not the code (a starved sx lags behind its own timers, a
    starved capture loses frames): the same configuration is run again, after a pause, up to two more times, and the
    finding is reported only if every run fails. Returns the last failing (row, finding) or None."""
    import time
    last = (o, r)
    for attempt in range(2):
        time.sleep(1.5 if o.get("jitter_ms", 0) < 20 else 4.0)
        args = ["-out", "confirm.jsonl", "-ntrace", 0, "-nseq", 0, "-every", 0, "-nslow", 0, "-e2e", o["idx"] + 1,
                "-e2eidx", o["idx"], "-sx", sx] + (["-e2ebig"] if big else [])
        ok, _ = ctx.harness_run("c19", args, timeout=300)
        if not ok:
            ctx.broken.pop()
            continue
        again = [x for x in ctx.read_jsonl(os.path.join(ctx.work, "confirm.jsonl")) if x["kind"] == "e2e"]
        if not again or again[0].get("skipped"):
            continue
        r2 = e2e_spec(again[0])
        if not r2:
            ctx.info.append("e2e run %s --live %dms: '%s' was not reproduced when the run was repeated (scheduling jitter "
                            "during the failing run: %.0f ms): attributed to the load of the machine, not reported" % (
                                o["subnet"], o["interval_ms"], r[1][:160], o.get("jitter_ms", 0)))
            return None
        last = (again[0], r2)
    return last


def judge_e2e(ctx, e2e, sx, big):
    for o in e2e:
        if o.get("skipped"):
            ctx.skipped.append("e2e: " + o["skipped"])
            continue
        nreq = len([a for a in o["seen"] if a["op"] == 1 and a["sender"] == o["src_ip"]])
        ctx.count("e2e-arp-live", (o["subnet"], o["interval_ms"], tuple(o["exclude"])), nontrivial=nreq > 8,
                  sample={"cmd": "sx arp --live %dms --json %s%s%s" % (o["interval_ms"], "--exclude <%s> " % ",".join(
                      o["exclude"]) if o["exclude"] else "", "--rate %d/s " % o["rate"] if o.get("rate") else "", o["subnet"]),
                      "arp_requests_seen": [((a["t"] - o["start"]) // 1000000, a["target"]) for a in o["seen"]
                                            if a["op"] == 1 and a["sender"] == o["src_ip"]][:30],
                      "stdout": o["stdout"][:4], "jitter_ms": o.get("jitter_ms")})
        r = e2e_spec(o)
        if r and r[0] not in [f["key"] for f in ctx.findings]:
            c = confirm_e2e(ctx, o, r, sx, big)
            if c is None:
                continue
            o, r = c
            why = r[1] + " (the run was repeated: it failed 3 times out of 3)"
            path = ctx.write_replay("e2e-%d" % len(ctx.findings), {
                "property": "C19", "what": why, "input": {"e2e": True, "subnet": o["subnet"], "exclude": o["exclude"],
                                                        "interval_ms": o["interval_ms"], "run_ms": o["run_ms"],
                                                        "rate": o.get("rate", 0)},
                "observed": {"seen": o["seen"][:80], "stdout": o["stdout"], "exit_code": o["exit_code"],
                             "stderr": o["stderr"], "jitter_ms": o.get("jitter_ms")},
                "replay_cmd": "bin/check C19 --replay <this file>"})
            ctx.findings.append({"key": r[0], "what": why, "replay": path})


def confirm_case(ctx, o):
    """A watchdog finding (hang) of a scripted run is re-run once before it is reported."""
    p = os.path.join(ctx.work, "confirm-in.json")
    with open(p, "w") as f:
        json.dump({k: o[k] for k in ("class", "script", "cap", "rescan_us", "cancel_after") if k in o} |
                  {k: o[k] for k in ("consume_us", "real", "passes", "cancel_pause_ms") if o.get(k)}, f)
    ok, _ = ctx.harness_run("c19", ["-out", "confirm-case.jsonl", "-replay", p], timeout=120)
    if not ok:
        ctx.broken.pop()
        return True
    got = ctx.read_jsonl(os.path.join(ctx.work, "confirm-case.jsonl"))
    if not got:
        return True
    r = real_spec(got[0]) if got[0]["kind"] == "real" else spec_on_impl(got[0])
    if not r:
        ctx.info.append("a run that hit the watchdog ended normally when repeated: attributed to the load of the machine")
    return bool(r)


def crash_finding(ctx, args, quick):
    """The harness process died: the live generator's goroutine panicked (a panic in a goroutine of the code under test
    cannot be recovered by the harness). Re-run the same generated list one case per process (`-only K`) and report the
    first case that kills the process, with its input."""
    exe = os.path.join(verif.HBIN, "c19")
    # without the end-to-end part: the cases are the scripted ones
    a = []
    skip = 0
    for x in args:
        if skip:
            skip -= 1
            continue
        if x in ("-e2e", "-sx"):
            skip = 1
            continue
        a.append(x)
    try:
        rc, out = verif.sh([exe] + [str(x) for x in a] + ["-count", "-out", "count.jsonl"], timeout=120, env=verif.GOENV,
                           cwd=ctx.work)
        total = int(out.strip().splitlines()[-1])
    except Exception:
        total = 400
    hit = ctx.harness_crash_search("c19", a, total)
    if not hit:
        return
    k, out = hit
    m = re.search(r"(panic: [^\n]*|fatal error: [^\n]*)", out)
    inp = {}
    try:
        inp = json.load(open(os.path.join(ctx.work, "only_%d.jsonl.input.json" % k)))
    except Exception:
        pass
    scenario = [("fails to start" if p["fail"] else "pass %s" % p["reqs"]) for p in inp.get("script", [])]
    where = ""
    m2 = re.search(r"\(\*(liveRequestGenerator\)[\w.]*)\S*\n\s*(\S+:\d+)", out)
    if m2:
        where = " in (*%s at %s" % (m2.group(1), os.path.basename(m2.group(2)))
    why = "the process crashes: %s%s; delegate script %s (capacity %s, rescan %.1f ms): a pass that fails to start must not " \
          "end live mode with a crash" % (m.group(1) if m else "the harness process died", where, scenario, inp.get("cap"),
                                          inp.get("rescan_us", 0) / 1000.0)
    path = ctx.write_replay("crash-%d" % k, {
        "property": "C19", "what": why, "input": {k2: inp[k2] for k2 in inp if k2 != "class"} | {"class": inp.get("class", "")},
        "output_tail": out[-1500:], "replay_cmd": "bin/check C19 --replay <this file>"})
    ctx.findings.append({"key": "crash", "what": why, "replay": path})


def judge(ctx, rows, limit=3):
    seen = set()
    bad = sorted(((sum(len(p["reqs"]) for p in o["script"]), i) for i, o in enumerate(rows) if spec_on_impl(o)))
    for _, i in bad:
        key, why = spec_on_impl(rows[i])
        if key in seen or len(seen) >= limit:
            continue
        if key == "hang" and not confirm_case(ctx, rows[i]):
            continue
        seen.add(key)
        report(ctx, rows[i], key, why)


def run(ctx):
    quick = ctx.tier == "quick"
    ctx.trusted += [
        "Go channels/select/context/time.After behave as Model/Live.v assumes (a nil channel blocks; select picks any "
        "ready case; a timer fires no earlier than its duration)",
        "the scripted delegate RequestGenerator and the single-goroutine harness record events in the order they happen",
        "C01 (each pass of the real generators covers every address once) is a separate property"]
    ctx.assumptions += ["time stamps are compared as inequalities with 1 ms of tolerance; promptness (how soon after the "
                        "interval the next pass starts) is not claimed",
                        "fairness of select is not modelled: 'cancel ends the stream' = ctx.Done is enabled at every "
                        "select and three such steps end the goroutine"]
    gen_ok = ctx.gen()
    model_ok = gen_ok and ctx.coq_model(["Spec/C19.vo"])
    proof_ok = gen_ok and ctx.coq_proofs("Properties/C19.v")
    rows, e2e, reals = [], [], []
    if ctx.harness_build("c19"):
        args = ["-out", "cases.jsonl", "-seed", ctx.seed, "-corpus", os.path.join(verif.ROOT, "corpus", "C19")]
        args += (["-ntrace", 150, "-nseq", 70, "-every", 5, "-nslow", 4] if quick else
                 ["-ntrace", 3000, "-nseq", 1200, "-every", 40, "-nslow", 40])
        # end to end: the unmodified binary in a private network namespace
        sx = os.path.join(ctx.work, "sx")
        rc, out = verif.sh(["go", "build", "-o", sx, "."], env=verif.GOENV, cwd=verif.REPO, timeout=900)
        if rc == 0:
            args += ["-e2e", 2 if quick else 12, "-sx", sx]
        else:
            ctx.skipped.append("e2e: the sx binary does not build: " + out[-300:])
        ok, _ = ctx.harness_run("c19", args, timeout=1500)
        if not ok:
            crash_finding(ctx, args, quick)
        if ok:
            allrows = ctx.read_jsonl(os.path.join(ctx.work, "cases.jsonl"))
            rows = [o for o in allrows if o["kind"] in ("trace", "seq")]
            e2e = [o for o in allrows if o["kind"] == "e2e"]
            reals = [o for o in allrows if o["kind"] == "real"]
    judge_e2e(ctx, e2e, os.path.join(ctx.work, "sx"), big=False)
    for o in reals:
        ctx.count(o["class"], (o["real"], o["rescan_us"], o["consume_us"]), nontrivial=True,
                  sample={"real_generators_over": o["real"], "rescan_us": o["rescan_us"], "consume_us": o["consume_us"],
                          "delegate_calls": o["calls"], "requests": len(o["out_ips"]), "first": o["out_ips"][:6]})
        r = real_spec(o)
        if r and r[0] == "hang" and not confirm_case(ctx, o):
            r = None
        if r and r[0] not in [f["key"] for f in ctx.findings]:
            path = ctx.write_replay("real-%d" % len(ctx.findings), {
                "property": "C19", "what": r[1],
                "input": {"class": o["class"], "real": o["real"], "rescan_us": o["rescan_us"], "consume_us": o["consume_us"],
                          "passes": o["passes"], "cancel_after": o["cancel_after"], "script": [], "cap": 0},
                "observed": {"out_ips": o["out_ips"][:120], "calls": o["calls"], "starts": o["starts"],
                             "deadlines": o["deadlines"], "closed": o["closed"]},
                "replay_cmd": "bin/check C19 --replay <this file>"})
            ctx.findings.append({"key": r[0], "what": r[1], "replay": path})
    for o in rows:
        key = (json.dumps(o["script"]), o["cap"], o["cancel_after"], o.get("consume_us", 0))
        inside = o["cancel_after"] < (1 << 29) and o["cancel_after"] >= 0
        ctx.count(o["class"], key, nontrivial=(o["calls"] >= 2 or inside),
                  sample={"script": [("fail" if p["fail"] else p["reqs"][:6]) for p in o["script"]], "cap": o["cap"],
                          "rescan_us": o["rescan_us"], "cancel_after": o["cancel_after"], "consume_us": o.get("consume_us", 0),
                          "trace": o["trace"][:14],
                          "outs": o["outs"][:12], "calls": o["calls"], "closed": o["closed"]})
    if rows:
        judge(ctx, rows)
    if model_ok and rows:
        nshards = 16 if quick else 48
        size = max(1, (len(rows) + nshards - 1) // nshards)
        parts = [rows[i:i + size] for i in range(0, len(rows), size)]
        jobs = []
        for i, p in enumerate(parts):
            tr = [o for o in p if o["kind"] == "trace"]
            sq = [o for o in p if o["kind"] == "seq" and not o["start_err"]]
            jobs.append((tr, sq, ("cases_%d" % i, case_file(tr, sq))))
        outs = ctx.coq_eval_many([j[2] for j in jobs])
        for (tr, sq, _), out in zip(jobs, outs):
            if int(ctx.parse_result(out, "LT")) != len(tr) or int(ctx.parse_result(out, "LS")) != len(sq):
                raise verif.Broken("case count differs between harness and model")
            for idx, codes in parse_pairs(ctx, out, "MT"):
                o = tr[idx]
                what = []
                for c in codes:
                    if c >= 1000:
                        ev = o["trace"][c - 1000] if c - 1000 < len(o["trace"]) else "?"
                        what.append("event %d %s is not a move the model can make" % (c - 1000, ev))
                    else:
                        what.append(CODES[c])
                ctx.broken.append(("correspondence: trace of script %s cancel_after=%s: %s" % (
                    [("fail" if p["fail"] else p["reqs"]) for p in o["script"]], o["cancel_after"], "; ".join(what)),
                    json.dumps(o)[:900]))
            for idx, codes in parse_pairs(ctx, out, "MS"):
                o = sq[idx]
                ctx.broken.append(("correspondence: buffered run cap=%d cancel_after=%s calls=%d: %s" % (
                    o["cap"], o["cancel_after"], o["calls"], "; ".join(SEQ_CODES[c] for c in codes)), json.dumps(o)[:900]))
            ctx.cov["traces_validated_against_impl"] += len(tr) + len(sq)
    if ctx.broken and not ctx.findings and os.path.exists(os.path.join(verif.HBIN, "c19")):
        sargs = ["-out", "search.jsonl", "-seed", ctx.seed + 7, "-ntrace", 1500, "-nseq", 600, "-every", 20, "-nslow", 30]
        sx = os.path.join(ctx.work, "sx")
        if os.path.exists(sx):
            # the rate-limited scans of a /20 (passes longer than the interval), 4 s each
            sargs += ["-e2e", 2, "-e2ebig", "-sx", sx]
        ok, _ = ctx.harness_run("c19", sargs, timeout=1500)
        if ok:
            more = ctx.read_jsonl(os.path.join(ctx.work, "search.jsonl"))
            judge(ctx, [o for o in more if o["kind"] in ("trace", "seq")])
            judge_e2e(ctx, [o for o in more if o["kind"] == "e2e"], sx, big=True)
            for o in more:
                r = None
                if o["kind"] == "real":
                    r = real_spec(o)
                if r and r[0] not in [f["key"] for f in ctx.findings]:
                    path = ctx.write_replay("search-%d" % len(ctx.findings), {
                        "property": "C19", "what": r[1], "input": {"e2e": o["kind"] == "e2e", "class": o["class"]},
                        "observed": {k: v for k, v in o.items() if k != "seen"}})
                    ctx.findings.append({"key": r[0], "what": r[1], "replay": path})
    return ctx.finish(rule=RULE)


def replay(ctx, path):
    r = json.load(open(path))
    if "input" not in r:
        print(json.dumps(r, indent=1))
        return 1
    if not ctx.harness_build("c19"):
        return 1
    if r["input"].get("e2e"):
        sx = os.path.join(ctx.work, "sx")
        rc, out = verif.sh(["go", "build", "-o", sx, "."], env=verif.GOENV, cwd=verif.REPO, timeout=900)
        if rc != 0:
            print(out[-500:])
            return 1
        ok, _ = ctx.harness_run("c19", ["-out", "one.jsonl", "-ntrace", 0, "-nseq", 0, "-every", 0, "-nslow", 0, "-e2e", 6, "-sx", sx],
                                timeout=300)
        bad = 0
        for o in ctx.read_jsonl(os.path.join(ctx.work, "one.jsonl")):
            if o["kind"] != "e2e":
                continue
            why = None if o.get("skipped") else e2e_spec(o)
            print("e2e sx arp --live %dms %s exclude=%s: %s" % (o["interval_ms"], o["subnet"], o["exclude"],
                                                                o.get("skipped") or (why[1] if why else "property holds")))
            bad += 1 if why else 0
        return 1 if bad else 0
    bad = 0
    for attempt in range(5):
        p = os.path.join(ctx.work, "one-in.json")
        with open(p, "w") as f:
            json.dump(r["input"], f)
        ok, hout = ctx.harness_run("c19", ["-out", "one.jsonl", "-replay", p], timeout=120)
        if not ok:
            m = re.search(r"(panic: [^\n]*|fatal error: [^\n]*)", hout or "")
            print("replay script=%s: the process crashes: %s" % (
                [("fail" if q["fail"] else q["reqs"]) for q in r["input"].get("script", [])],
                m.group(1) if m else "the harness process died"))
            return 1
        o = ctx.read_jsonl(os.path.join(ctx.work, "one.jsonl"))[0]
        if o["kind"] == "real":
            why = real_spec(o)
            print("replay real generators over %s, interval %.1f ms, consumer %.1f ms/request -> %d requests, %d delegate "
                  "calls: %s" % (o["real"], o["rescan_us"] / 1000.0, o["consume_us"] / 1000.0, len(o["out_ips"]), o["calls"],
                                 why[1] if why else "property holds on this run"))
            bad += 1 if why else 0
            continue
        why = spec_on_impl(o)
        print("replay script=%s cap=%d cancel_after=%s -> outs=%s calls=%d closed=%s: %s" % (
            [("fail" if p["fail"] else p["reqs"]) for p in o["script"]], o["cap"], o["cancel_after"], o["outs"][:30],
            o["calls"], o["closed"], why[1] if why else "property holds on this run"))
        bad += 1 if why else 0
    return 1 if bad else 0


MANIFEST = {
    "technique": "Coq proof: invariants over ALL schedules of a transition-system model of the liveRequestGenerator "
                 "goroutine (any script of delegate passes, cancellation anywhere) + `sx arp --live` wiring translated "
                 "from command/arp.go + trace-inclusion check: event traces of the real generator over a scripted delegate "
                 "are replayed through the model inside Coq",
    "level_text": "10 theorems: output = concatenation of the passes in order, each complete before the next starts; "
                  "always a subsequence; next pass >= rescan after the previous end (logical clock); passes keep coming; "
                  "cancel ends the stream; a failed pass blocks until cancel (no crash, no busy loop); accepted traces are "
                  "runs of the model; arp wiring (live outermost, unique logger, guard liveTimeout > 0).",
    "level_note": "Partial for real time: the interval is proved on the logical clock and measured with 1 ms tolerance on "
                  "the real timers; select fairness and promptness are not modelled. Trusted: Coq kernel + VM, Go "
                  "channel/select/timer semantics as modelled, the scripted delegate. No axioms.",
    "design_ref": "DESIGN.md section 5 (C19)",
}
