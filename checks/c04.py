"""C04 -- randomised iteration is a permutation for every n <= 2^32."""
import json
import os

import verif

RULE = ("sizes n drawn from every row of the cyclic group table (both ends of each row's interval, powers of two "
        "and neighbours, uniform per row, uniform in [1,2^32]) plus the reject boundary, plus complete bitmap walks of the "
        "sparse sizes just above each table prime up to 2^21 (quick) / 2^25 (thorough); seeds from one PRNG; "
        "non-trivial = accepted size with at least 2 outputs observed; distinct by (n, seed)")

CODES = {1: "error kind differs from the model", 2: "group differs from sort.Search on the table",
         3: "the generator the code chose is not a generator of the group", 4: "start value outside 1..n",
         5: "outputs differ from the model's walk from the code's own generator and start",
         100: "(info) random draws are spent differently from the model"}


def case_term(o):
    err = {"": 0, "RangeSize": 1, "InvalidGroup": 2}.get(o["err"], 3)
    z = verif.coq_z
    outs = o["outs"] or []
    return ("{| cn := %s; cr1 := %s; cr2 := %s; ck := %d%%positive; cerr := %d; cP := %s; cG := %s; cS := %s; "
            "couts := %s; ccomplete := %s |}") % (
        z(o["n"]), z(o["r1"]), z(o["r2"]), max(1, o["k"]), err, z(o["P"] or 0), z(o["G"] or 0), z(o["startI"] or 0),
        verif.coq_list([z(x) for x in outs]), verif.coq_bool(o["complete"]))


def spec_on_impl(o):
    """The property itself, judged on the implementation's observation alone. Returns None or a reason."""
    n = o["n"]
    if (o["err"] or "").startswith("panic"):
        return "size %d makes the constructor panic instead of returning a value or an error (%s)" % (n, o["err"][:120])
    if n < 1 or n > 2 ** 32 + 60:
        return None if o["err"] == "RangeSize" else "size %d outside 1..2^32+60 is not rejected" % n
    if o["err"]:
        return "size %d is rejected with %s" % (n, o["err"])
    outs = o["outs"] or []
    if o.get("class") == "jump":
        if o.get("jump_got") != str(o.get("jump_target")) and o.get("jump_via"):
            return "with the start element %s the element %d is not yielded: the walk is at %s (skipped or yielded), the next step gives %s (P=%s G'=%s)" % (
                o["jump_start"], o["jump_target"], o["jump_via"], o.get("jump_got"), o["P"], o["G"])
        if o.get("jump_got") != str(o.get("jump_target")):
            return "the element %d is not yielded: one step from its predecessor on the cycle gives %s (P=%s G'=%s)" % (
                o["jump_target"], o.get("jump_got"), o["P"], o["G"])
        return None
    if o.get("walk"):
        if o.get("dup"):
            return "the integer %s is yielded twice" % o["dup"]
        if o.get("oor"):
            return "the integer %s outside 1..%d is yielded" % (o["oor"], n)
        if o["complete"] and o["count"] != n:
            return "iteration stops after %d of %d integers" % (o["count"], n)
        if not o["complete"] and o["count"] >= n:
            return "iteration does not stop after %d integers" % n
        return None
    if len(set(outs)) != len(outs):
        return "an integer is yielded twice"
    if any(x < 1 or x > n for x in outs):
        return "an integer outside 1..%d is yielded" % n
    if o["complete"] and len(outs) != n:
        return "iteration stops after %d of %d integers" % (len(outs), n)
    if not o["complete"] and len(outs) >= n:
        return "iteration does not stop after %d integers" % n
    return None


def case_file(rows):
    body = ["From Coq Require Import ZArith List.", "From SX Require Import Model.RangeIter Spec.C04.",
            "Import ListNotations.", "Open Scope Z_scope.",
            "Definition cases : list case := ["]
    body.append(";\n".join(case_term(o) for o in rows))
    body.append("].")
    body.append("Definition M := Eval vm_compute in check_all 0 cases.")
    body.append("Definition L := Eval vm_compute in length cases.")
    body.append("Print M. Print L.")
    return "\n".join(body)


def parse_eval(ctx, out, nrows):
    import re
    m = ctx.parse_result(out, "M")
    n_model = int(ctx.parse_result(out, "L"))
    if n_model != nrows:
        raise verif.Broken("case count differs between harness and model (%d vs %d)" % (nrows, n_model))
    res = []
    if m.strip() not in ("[]", "nil"):
        for idx, codes in re.findall(r"\((\d+), \[([^\]]*)\]\)", m):
            res.append((int(idx), [int(c.strip().strip("()")) for c in codes.split(";") if c.strip()]))
        if not res:
            raise verif.Broken("cannot parse mismatch list", m[:500])
    return res


def search_failing(ctx, budget):
    """A tie or proof broke: look for a concrete n/seed on which the real iterator is not a permutation."""
    found = []
    # (i) rows the model's certificate rejects: walk the row's largest n on the implementation
    try:
        out = ctx.coq_eval("badrows", "From Coq Require Import ZArith List.\nFrom SX Require Import Spec.C04.\n"
                                      "Definition B := Eval vm_compute in bad_rows.\nPrint B.\n")
        import re
        bad = re.findall(r"\((\d+), (\d+), (\d+)\)", ctx.parse_result(out, "B"))
    except verif.Broken:
        bad = []
    # (ii) generic sweep: small n walked completely, several seeds
    ok, _ = ctx.harness_run("c04", ["-out", "search.jsonl", "-seed", ctx.seed + 7, "-n", 1500, "-full", 5000,
                                    "-prefix", 1000], timeout=600)
    rows = ctx.read_jsonl(os.path.join(ctx.work, "search.jsonl")) if ok else []
    for (p, g, n) in sorted(bad, key=lambda r: int(r[0])):
        p = int(p)
        if p - 1 > budget:
            ctx.info.append("row P=%d fails the certificate; a full walk needs up to %d steps, over the budget %d of "
                            "this tier" % (p, p - 1, budget))
            continue
        for sd in range(2):
            ok, _ = ctx.harness_run("c04", ["-out", "one.jsonl", "-walk", "%d,%d,%d" % (p - 1, ctx.seed * 1000 + sd, p)],
                                    timeout=3000)
            if ok:
                got = ctx.read_jsonl(os.path.join(ctx.work, "one.jsonl"))
                rows += got
                if got and spec_on_impl(got[0]):
                    break
    for o in rows:
        why = spec_on_impl(o)
        if why:
            found.append((o, why))
    return found


def report(ctx, o, why):
    small = dict(o)
    if small.get("outs") and len(small["outs"]) > 64:
        small["outs_head"] = small["outs"][:64]
        small["outs_len"] = len(small["outs"])
        del small["outs"]
    path = ctx.write_replay("n%d-seed%d" % (o["n"], o["seed"]), {
        "property": "C04", "what": why, "input": {"n": o["n"], "seed": o["seed"], "k": o["k"], "walk": bool(o.get("walk")),
                                                  "interleaved_with": o.get("interleaved_with", 0)},
        "observed": small, "replay_cmd": "bin/check C04 --replay <this file>"})
    ctx.findings.append({"key": "n=%d" % o["n"], "what": why, "replay": path})


def run(ctx):
    quick = ctx.tier == "quick"
    ctx.trusted += ["math/big implements Z; math/rand draws are universally quantified in the theorems and replayed "
                    "from the seed in the tie", "pkg/scan/verif_export.go accessors (build tag verif)"]
    ctx.assumptions += ["callers pass n <= 2^32 (ports: <= 65536; subnets: <= 2^32)"]
    gen_ok = ctx.gen()
    model_ok = gen_ok and ctx.coq_model(["Spec/C04.vo"])
    proof_ok = gen_ok and ctx.coq_proofs("Properties/C04.v")
    rows = []
    if ctx.harness_build("c04"):
        n = 400 if quick else 12000
        ok, _ = ctx.harness_run("c04", ["-out", "cases.jsonl", "-seed", ctx.seed, "-n", n,
                                        "-full", 600 if quick else 5000, "-prefix", 120 if quick else 400],
                                timeout=1500)
        if ok:
            rows = ctx.read_jsonl(os.path.join(ctx.work, "cases.jsonl"))
    # the property judged on the implementation alone (always)
    for o in rows:
        ctx.count(o["class"], (o["n"], o["seed"]), nontrivial=(not o["err"] and len(o["outs"] or []) >= 2),
                  sample={"n": o["n"], "seed": o["seed"], "P": o["P"], "G'": o["G"], "startI": o["startI"],
                          "first_outputs": (o["outs"] or [])[:8], "complete": o["complete"], "err": o["err"]})
        why = spec_on_impl(o)
        if why:
            report(ctx, o, why)
    if rows:
        # sizes just above a table prime (about half of the next group is out of range: long runs of skipped
        # elements), walked completely and judged by the property on the implementation alone
        ok, _ = ctx.harness_run("c04", ["-out", "sparse.jsonl", "-sparse", "%d,%d" % ((1 << 21) + 64 if quick else (1 << 25) + 64, 2 if quick else 3)],
                                timeout=1500)
        sp = ctx.read_jsonl(os.path.join(ctx.work, "sparse.jsonl")) if ok else []
        for o in sp:
            ctx.count(o["class"], (o["n"], o["seed"]), nontrivial=o["n"] >= 2)
            why = spec_on_impl(o)
            if why:
                report(ctx, o, why)
        ctx.info.append("%d complete walks of sparse sizes (n just above a table prime) judged by the property" % len(sp))
        ok, _ = ctx.harness_run("c04", ["-out", "inter.jsonl", "-interleaved", "-seed", ctx.seed + 11], timeout=600)
        il = ctx.read_jsonl(os.path.join(ctx.work, "inter.jsonl")) if ok else []
        for o in il:
            ctx.count("interleaved", (o["n"], o["seed"], o["k"]), nontrivial=True)
            why = spec_on_impl(o)
            if why:
                o = dict(o, interleaved_with=o["k"])
                report(ctx, o, "a walk of 1..%d that is suspended while %d further iterators are constructed (sizes of the same and other table rows), then continued: %s" % (o["n"], o["k"], why))
        ctx.info.append("%d complete walks, each suspended while 1100..4100 further iterators were constructed, judged by the property" % len(il))
        ok, _ = ctx.harness_run("c04", ["-out", "jump.jsonl", "-jump"], timeout=600)
        jp = ctx.read_jsonl(os.path.join(ctx.work, "jump.jsonl")) if ok else []
        for o in jp:
            ctx.count("jump", (o["n"], o["seed"], o.get("jump_target"), o.get("jump_start"), o.get("jump_via")), nontrivial=True)
            why = spec_on_impl(o)
            if why:
                report(ctx, o, why)
        al = [o for o in jp if o.get("jump_pred")]
        if model_ok and al:
            # the same single steps on the model: Next from the state (P, G', I = predecessor, start, limit)
            body = ["From Coq Require Import ZArith List.", "From SX Require Import Model.RangeIter.", "Import ListNotations.",
                    "Open Scope Z_scope.",
                    "Definition step1 (c : Z * Z * Z * Z * Z) : Z := let '(p, g, i, s, l) := c in",
                    "  match next {| itP := p; itG := g; itI := i; itStart := s; itLim := l; itStop := false |} with",
                    "  | Some (it', true) => itI it' | Some (_, false) => 0 | None => -1 end.",
                    "Definition J := Eval vm_compute in map step1 [",
                    ";\n".join("(%s, %s, %s, %s, %d)" % (o["P"], o["G"], o["jump_pred"], o["jump_start"], o["n"]) for o in al),
                    "].", "Print J."]
            import re
            vals = [int(v) for v in re.findall(r"-?\d+", ctx.parse_result(ctx.coq_eval("jumpcases", "\n".join(body)), "J"))]
            if len(vals) != len(al):
                raise verif.Broken("jump cases: the model evaluated %d of %d states" % (len(vals), len(al)))
            for o, v in zip(al, vals):
                got = 0 if o.get("jump_got") == "end" else int(o["jump_got"])
                if v != got:
                    ctx.broken.append(("correspondence: Next from the state (P=%s, G'=%s, I=%s, start=%s, limit=%d): the model %s, "
                                       "the implementation %s" % (o["P"], o["G"], o["jump_pred"], o["jump_start"], o["n"],
                                                                  "ends the walk" if v == 0 else "yields %d" % v,
                                                                  "ends the walk" if got == 0 else "yields %d" % got), ""))
                    break
            ctx.cov["traces_validated_against_impl"] += len(al)
            ctx.info.append("%d of these single steps (arbitrary start element, position on a low-bits alias of it) also evaluated on "
                            "the model's Next inside Coq and compared" % len(al))
        ctx.info.append("%d single steps from the predecessor of n, n-1, 1 and a middle element (both ends of every table row, "
                        "2^32, 2^32-1, 2^31) and from elements that agree with a chosen start element in their low 8/16/24/31/32 bits: "
                        "the element must be yielded" % len(jp))
    if not quick and os.path.exists(os.path.join(verif.HBIN, "c04")):
        # exhaustive over every n <= 2048 under 8 seeds, and one complete walk of a 2^24 range (bitmap check)
        ok, _ = ctx.harness_run("c04", ["-out", "sweep.jsonl", "-sweep", "2048,8"], timeout=1200)
        extra = ctx.read_jsonl(os.path.join(ctx.work, "sweep.jsonl")) if ok else []
        ok, _ = ctx.harness_run("c04", ["-out", "big.jsonl", "-walk", "%d,%d,%d" % (1 << 24, ctx.seed + 3, (1 << 24) + 2)], timeout=1200)
        extra += ctx.read_jsonl(os.path.join(ctx.work, "big.jsonl")) if ok else []
        for o in extra:
            ctx.count(o["class"], (o["n"], o["seed"]), nontrivial=o["n"] >= 2)
            why = spec_on_impl(o)
            if why:
                report(ctx, o, why)
        ctx.info.append("exhaustive sweep n=1..2048 x 8 seeds and one full 2^24 walk: %d complete walks judged by the property" % len(extra))
    info100 = 0
    if model_ok and rows:
        nshards = 16 if quick else 64
        size = max(1, (len(rows) + nshards - 1) // nshards)
        parts = [rows[i:i + size] for i in range(0, len(rows), size)]
        outs = ctx.coq_eval_many([("cases_%d" % i, case_file(p)) for i, p in enumerate(parts)])
        for part, out in zip(parts, outs):
            for idx, codes in parse_eval(ctx, out, len(part)):
                o = part[idx]
                hard = [c for c in codes if c != 100]
                if 100 in codes:
                    info100 += 1
                if hard:
                    ctx.broken.append(("correspondence: n=%d seed=%d: %s" % (
                        o["n"], o["seed"], "; ".join(CODES[c] for c in hard)), json.dumps(o)[:600]))
            ctx.cov["traces_validated_against_impl"] += len(part)
    if info100:
        ctx.info.append("%d cases: the code spends its random draws differently from the model (not an alarm: "
                        "C04_any_generator covers any generator and start)" % info100)
    if ctx.broken and not ctx.findings and "c04" and os.path.exists(os.path.join(verif.HBIN, "c04")):
        for o, why in search_failing(ctx, (1 << 30) + 64 if quick else 1 << 33)[:3]:
            report(ctx, o, why)
    return ctx.finish(rule=RULE)


def replay(ctx, path):
    r = json.load(open(path))
    if "input" not in r:
        print(json.dumps(r, indent=1))
        return 1
    i = r["input"]
    if not ctx.harness_build("c04"):
        return 1
    if i.get("interleaved_with"):
        ok, _ = ctx.harness_run("c04", ["-out", "one.jsonl", "-interleaved1", "%d,%d,%d" % (i["n"], i["seed"], i["interleaved_with"])], timeout=3000)
    else:
        ok, _ = ctx.harness_run("c04", ["-out", "one.jsonl", "-walk" if i.get("walk") else "-replay",
                                        "%d,%d,%d" % (i["n"], i["seed"], i["k"])], timeout=3000)
    o = ctx.read_jsonl(os.path.join(ctx.work, "one.jsonl"))[0]
    why = spec_on_impl(o)
    print("replay n=%d seed=%d: %s" % (i["n"], i["seed"], why or "property holds on this input"))
    return 1 if why else 0

MANIFEST = {
    "technique": "Coq proof (order-of-element certificate per table row by vm_compute + general lemmas; loop invariant) "
                 "+ translated table + differential correspondence",
    "level_text": "Theorems C04_permutation / C04_reject / C04_accept / C04_any_generator hold for all n and all draws "
                  "over the group table regenerated from range.go on every run; the executable model is compared with "
                  "the real iterator (P, generator certificate, start, outputs) on sizes from every table row.",
    "level_note": "Trusted: Coq kernel + VM, tools/gen table transcription, math/big = Z, harness comparison. "
                  "No axioms (Print Assumptions: closed). The Next/collect loops are modelled by hand and tied by "
                  "differential testing.",
    "design_ref": "DESIGN.md section 5 (C04)",
}
