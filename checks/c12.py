"""C12 -- cancellation at any moment ends the scan cleanly and promptly."""
import json
import os

import verif

RULE = ("cancel-at-k runs of the real engines: packet engine (cancel after the k-th error on the merged stream, k random "
        "incl. 0, N in {1,2,7,16,64}, channel capacities 0/1/100, slow writers) and application path under the real "
        "startScanEngine (cancel at the k-th probe, W in {1,2,7,100,1000}, exit delays 0..40 ms); non-trivial = the "
        "cancellation fell strictly inside the run; distinct by (engine, workers, cap, k, request script)")

RETURN_BOUND_MS = 5000


def fate07(r):
    return "req" if r["bad"] else "fill" if not r["fill"] else "write" if not r["write"] else "wire"


def spec_packet(o):
    if o["panic"]:
        return "panic: " + o["panic"]
    if not o["errc_closed"]:
        return "the error stream did not end after cancellation (%s)" % (o["stuck"] or "errc open")
    reqs = {r["id"]: r for r in (o["reqs"] or [])}
    wire = o["wire"] or []
    ids = [w["id"] for w in wire]
    if len(set(ids)) != len(ids):
        return "a frame was written twice"
    for w in wire:
        if w["id"] not in reqs or fate07(reqs[w["id"]]) != "wire":
            return "a frame was written for request %d which must not produce one" % w["id"]
        if not w["intact"]:
            return "a frame reached the writer with altered bytes (id %d)" % w["id"]
    errs = o["errs"] or []
    if len(set(errs)) != len(errs):
        return "an error was reported twice"
    for e in errs:
        kind, i = e.split(":")[0], int(e.split(":")[1])
        if kind == "other" or i not in reqs or fate07(reqs[i]) != kind:
            return "error %s does not correspond to a failed request" % e
    return None


def spec_app(o):
    if o["panic"]:
        return "panic: " + o["panic"]
    if not o["returned"]:
        return "startScanEngine did not return after cancellation"
    if o.get("scenario") == "cancelled during the exit delay":
        if o.get("after_cancel_ms", 0) > 1500:
            return "startScanEngine returned only %d ms after a cancellation that fell inside the exit delay of %d ms" % (
                o["after_cancel_ms"], o["delay_ms"])
    elif o["elapsed_ms"] > RETURN_BOUND_MS + o["delay_ms"]:
        return "startScanEngine returned only after %d ms" % o["elapsed_ms"]
    if o["bad_lines"]:
        return "%d output lines are not complete records" % o["bad_lines"]
    reqs = {r["id"]: r for r in (o["reqs"] or [])}
    scans = o["scans"] or []
    if len(set(scans)) != len(scans):
        return "a target was probed twice"
    if any(reqs[i]["bad"] for i in scans):
        return "a request carrying an error was probed"
    pr = o["printed"] or []
    if len(set(pr)) != len(pr):
        return "a result was printed twice"
    for i in pr:
        if reqs[i]["bad"] or reqs[i]["out"] != "pos" or i not in scans:
            return "a record was printed for target %d whose probe did not detect anything" % i
    errs = o["errs"] or []
    if len(set(errs)) != len(errs):
        return "an error was logged twice"
    for e in errs:
        kind, i = e.split(":")[0], int(e.split(":")[1])
        ok = (kind == "req" and reqs[i]["bad"]) or (kind == "scan" and not reqs[i]["bad"] and reqs[i]["out"] == "fail")
        if not ok:
            return "error %s does not correspond to a failed probe" % e
    return None


def report(ctx, engine, o, why):
    small = {k: v for k, v in o.items() if k not in ("wire", "errs", "scans", "printed")}
    path = ctx.write_replay("%s-case%d" % (engine, o["case"]), {"property": "C12", "engine": engine, "what": why,
                                                               "input": {"reqs": o["reqs"], "cancel_at": o["cancel_at"]},
                                                               "observed": small})
    ctx.findings.append({"key": "%s:%s" % (engine, why.split(":")[0][:40]), "what": why, "replay": path})


def crashed(ctx, engine, name, args, total, env):
    """the harness process died: a panic inside a goroutine of the engine; find the run that does it"""
    hit = ctx.harness_crash_search(name, args, total, env=env)
    if hit:
        k, out = hit
        import re
        m = re.search(r"(panic: [^\n]*|fatal error: [^\n]*)", out)
        why = "the process crashes: " + (m.group(1) if m else "harness died")
        path = ctx.write_replay("%s-crash%d" % (engine, k), {
            "property": "C12", "engine": engine, "what": why, "input": {"harness": name, "args": [str(a) for a in args],
                                                                       "only": k},
            "output_tail": out[-1500:], "replay_cmd": "harness/bin/%s %s -only %d" % (name, " ".join(map(str, args)), k)})
        ctx.findings.append({"key": "%s:crash" % engine, "what": why, "replay": path})


def batch(ctx, seed, npkt, napp, tag="", env=None):
    rows = []
    args = ["-seed", seed, "-n", 0, "-cancel", npkt]
    ok, _ = ctx.harness_run("c07", ["-out", "pkt%s.jsonl" % tag] + args, timeout=900, env=env)
    if ok:
        rows += [("packet", o) for o in ctx.read_jsonl(os.path.join(ctx.work, "pkt%s.jsonl" % tag)) if o["class"] == "cancel"]
    elif not any(f["key"] == "packet:crash" for f in ctx.findings):
        crashed(ctx, "packet", "c07", args, npkt + 2, env)
    args = ["-seed", seed, "-n", 0, "-cancel", napp]
    ok, _ = ctx.harness_run("c08", ["-out", "app%s.jsonl" % tag] + args, timeout=900, env=env)
    if ok:
        rows += [("app", o) for o in ctx.read_jsonl(os.path.join(ctx.work, "app%s.jsonl" % tag)) if o["class"] == "cancel"]
    elif not any(f["key"] == "app:crash" for f in ctx.findings):
        crashed(ctx, "app", "c08", args, napp + 2, env)
    return rows


def judge(ctx, rows):
    for engine, o in rows:
        reqs = o["reqs"] or []
        seen = len(o["errs"] or []) + len(o.get("wire") or []) + len(o.get("scans") or [])
        ctx.count(engine, (engine, o.get("n", o.get("w")), o["cap"], o["cancel_at"], json.dumps(reqs)),
                  nontrivial=0 < seen < 2 * len(reqs) + 1 and len(reqs) >= 3,
                  sample={"engine": engine, "workers": o.get("n", o.get("w")), "requests": len(reqs),
                          "cancel_at": o["cancel_at"], "errors_seen": len(o["errs"] or []),
                          "returned_ms": o.get("elapsed_ms"), "done_closed": o.get("done_closed")})
        why = spec_packet(o) if engine == "packet" else spec_app(o)
        if why:
            report(ctx, engine, o, why)
        ctx.cov["traces_validated_against_impl"] += 1


def e2e_cancel_app(ctx):
    """SIGINT while a probe of the real socks / elastic / docker command is in flight against a silent peer: the process
    must exit promptly (the request timeout is 30 s) with only complete records printed."""
    sx = os.path.join(ctx.work, "sx")
    if not os.path.exists(sx):
        rc, out = verif.sh(["go", "build", "-o", sx, "."], env=verif.GOENV, cwd=verif.REPO, timeout=900)
        if rc != 0:
            ctx.broken.append(("correspondence: the sx binary does not build", out[-1500:]))
            return
    ok, _ = ctx.harness_run("c08", ["-e2ecancel", sx, "-out", "e2ecancel.jsonl"], timeout=300)
    for o in (ctx.read_jsonl(os.path.join(ctx.work, "e2ecancel.jsonl")) if ok else []):
        ctx.count("e2e-cancel", ("e2e-cancel", o["cmd"], o["stall"]), nontrivial=o["request_seen"],
                  sample={"cmd": o["cmd"], "stalled_request": o["stall"], "exit_ms_after_sigint": o["exit_ms_after_sigint"]})
        why = None
        if not o["request_seen"] and o["stall"] != "stdin-open":
            ctx.skipped.append("e2e cancel %s/%s: the probe never reached the peer (%s)" % (o["cmd"], o["stall"], o["stderr"][:100]))
            continue
        if not o["exited"]:
            why = "the process is still running 8 s after SIGINT"
        elif o["exit_ms_after_sigint"] > 3000:
            why = "the process exits only %d ms after SIGINT" % o["exit_ms_after_sigint"]
        elif o["bad_lines"]:
            why = "%d printed lines are not complete records" % o["bad_lines"]
        if why and o["stall"] == "stdin-open":
            why = "sx %s -p <port> -f - -t 30s with the address list on a pipe that stays open (one address written), peer silent, SIGINT %s: %s" % (
                o["cmd"], "while the request is in flight" if o["request_seen"] else "3 s after the start (no probe had been made)", why)
        elif why:
            why = "sx %s -t 30s against a peer that never answers the %s request, SIGINT while the request is in flight: %s" % (
                o["cmd"], o["stall"], why)
        if why:
            path = ctx.write_replay("e2e-cancel-%s-%s" % (o["cmd"], o["stall"]), {"property": "C12", "what": why, "input": {"args": o["args"], "stall": o["stall"]}, "observed": o})
            ctx.findings.append({"key": "e2e-cancel:%s:%s" % (o["cmd"], o["stall"]), "what": why, "replay": path})


def e2e_chunk_late_reply(ctx, runs, par):
    """The real binary: a chunked SYN scan (450 single-port ranges = 3 engines one after the other) with a reply to a
    probe of the first chunk arriving after that chunk's engine has ended. The process must not crash."""
    import subprocess
    sx = os.path.join(ctx.work, "sx")
    rc, out = verif.sh(["go", "build", "-o", sx, "."], env=verif.GOENV, cwd=verif.REPO, timeout=900)
    if rc != 0:
        ctx.broken.append(("correspondence: the sx binary does not build", out[-1500:]))
        return
    hdir = os.path.join(verif.ROOT, "harness")
    rc, out = verif.sh(["go", "build", "-o", os.path.join(verif.HBIN, "lateresp"), "./cmd/lateresp"], env=verif.GOENV,
                       cwd=hdir, timeout=600)
    if rc != 0:
        ctx.skipped.append("e2e chunk/late-reply stage: helper does not build")
        return
    rc, out = verif.sh([os.path.join(verif.ROOT, "bin", "e2e-chunk-late-reply"), sx, os.path.join(verif.HBIN, "lateresp"),
                        str(runs), str(par), os.path.join(ctx.work, "e2e")], timeout=600)
    rows = []
    for line in out.splitlines():
        try:
            rows.append(json.loads(line))
        except ValueError:
            pass
    if any("skipped" in r for r in rows) or not rows:
        ctx.skipped.append("e2e chunk/late-reply stage: " + (rows[0].get("skipped", "?") if rows else "no output"))
        return
    crashes = [r for r in rows if r.get("crash")]
    for r in rows:
        ctx.count("e2e-chunk-late-reply", ("e2e", r["run"]), nontrivial=True,
                  sample={"engine": "sx tcp syn -p <450 ports> with a late reply from chunk 1", "run": r["run"], "rc": r["rc"],
                          "crash": r["crash"]})
    ctx.info.append("e2e chunk/late-reply: %d runs of the real binary, %d crashed" % (len(rows), len(crashes)))
    if crashes:
        why = "the process crashes: " + crashes[0]["excerpt"]
        path = ctx.write_replay("e2e-chunk-crash", {
            "property": "C12", "what": why, "input": "sx tcp syn -a cache.json --exit-delay 40ms -p 1,2,...,450 <host on a veth> "
            "with a SYN+ACK from port 7 arriving 90-240 ms after the probe (bin/e2e-chunk-late-reply)",
            "crashed_runs": crashes[:5], "runs": len(rows)})
        ctx.findings.append({"key": "packet:crash-after-engine-closed", "what": why, "replay": path})


def caller_blocked_write(ctx, k):
    """Cancellation while the write path of the packet engine is blocked (sender asleep in the real limiter's Take() at
    -r 1/30s, or inside a device write that blocks), under the REAL startScanEngine: the scan call must return promptly."""
    ok, _ = ctx.harness_run("c07", ["-callerblock", k, "-seed", ctx.seed, "-out", "callerblock.jsonl"], timeout=600)
    if not ok:
        if not any(f["key"] == "packet:crash" for f in ctx.findings):
            crashed(ctx, "packet", "c07", ["-callerblock", k, "-seed", ctx.seed], k, None)
        return
    for o in ctx.read_jsonl(os.path.join(ctx.work, "callerblock.jsonl")):
        ctx.count("caller-blocked-write", ("callerblock", o["kind"], o["n"], o["requests"], o["block_after"]), nontrivial=o["written"] >= 1,
                  sample={"engine": "packet engine under the real startScanEngine", "write_path": o["kind"], "workers": o["n"],
                          "requests": o["requests"], "frames_out_before_the_block": o["written"],
                          "returned_ms_after_cancel": o["after_cancel_ms"] if o["returned"] else None})
        ctx.cov["traces_validated_against_impl"] += 1
        what = {"rate": "the sender waits in limiter.Take() for its next slot (real rate-limit wrapper, real limiter, 1 probe per 30 s as "
                        "with `-r 1/30s`)",
                "device": "the sender is inside a device write that blocks (full send queue)"}[o["kind"]]
        why = None
        if o["panic"]:
            why = "panic: " + o["panic"]
        elif not o["returned"]:
            why = "the scan call (startScanEngine) has not returned %d ms after the cancellation" % o["waited_ms"]
        elif o["after_cancel_ms"] > 3000:
            why = "the scan call (startScanEngine) returns only %d ms after the cancellation" % o["after_cancel_ms"]
        if why:
            why = "packet scan of %d requests with %d generator workers, cancelled after %d frames went out while %s: %s" % (
                o["requests"], o["n"], o["written"], what, why)
            path = ctx.write_replay("callerblock-%s-%d" % (o["kind"], o["case"]), {
                "property": "C12", "what": why, "input": {"harness": "c07 -callerblock %d -seed %d" % (k, ctx.seed), "case": o["case"],
                                                          "write_path": o["kind"], "workers": o["n"], "requests": o["requests"],
                                                          "block_after_writes": o["block_after"]}, "observed": o})
            ctx.findings.append({"key": "packet:caller-blocked-write:%s" % o["kind"], "what": why, "replay": path})


def run(ctx):
    quick = ctx.tier == "quick"
    ctx.trusted += ["Base/Net.v is the assumed semantics of Go channels, select, close, WaitGroup and context cancellation",
                    "goroutine bodies modelled by hand (Model/Pipeline.v, Model/AppEngine.v), source shape pinned by "
                    "Model/*Shape.v against Gen/Skeletons.v",
                    "promptness (bounded real time) and fairness of select are runtime behaviour: measured by the "
                    "cancel-at-k runs, not proved; what is proved is that the call can always return and never panics"]
    ctx.assumptions += ["request generators honour ctx in every send (writeRequest); arp cacheReqGenerator's unconditional "
                        "send is outside the modelled networks (see DESIGN.md)"]
    gen_ok = ctx.gen()
    ctx.coq_proofs("Properties/C12.v") if gen_ok else None
    rows = []
    if ctx.harness_build("c07") and ctx.harness_build("c08"):
        rows = batch(ctx, ctx.seed, 150 if quick else 1500, 150 if quick else 1500)
        if not quick:
            for gmp in ("1", "4"):
                rows += batch(ctx, ctx.seed + int(gmp), 400, 400, tag="_g" + gmp, env={"GOMAXPROCS": gmp})
    judge(ctx, rows)
    if ctx.harness_build("c07"):
        caller_blocked_write(ctx, 4 if quick else 24)
    e2e_chunk_late_reply(ctx, 3 if quick else 12, 6 if quick else 12)
    e2e_cancel_app(ctx)
    if not quick:
        ctx.harness_race_run("c07", ["-out", "race7.jsonl", "-seed", ctx.seed + 9, "-n", 0, "-cancel", 400], "in the packet engine under cancellation")
        ctx.harness_race_run("c08", ["-out", "race8.jsonl", "-seed", ctx.seed + 9, "-n", 0, "-cancel", 400], "in the application engine under cancellation")
    if ctx.broken and not ctx.findings and any("afpacket" in n or "start" in n for n in getattr(ctx, "source_diff", [])):
        # the packet source or the engine start changed: the crash needs a frame arriving after an engine ended
        e2e_chunk_late_reply(ctx, 30, 10)
    if ctx.broken and not ctx.findings and rows:
        for gmp in ("1", "2", "16"):
            more = batch(ctx, ctx.seed + 50 + int(gmp), 300, 300, tag="_s" + gmp, env={"GOMAXPROCS": gmp})
            judge(ctx, more)
            if ctx.findings:
                break
    return ctx.finish(rule=RULE)


def replay(ctx, path):
    r = json.load(open(path))
    print(json.dumps({k: v for k, v in r.items() if k != "input"}, indent=1)[:3000])
    print("replay: cancellation failures are schedule dependent; rerun `bin/check C12` for the stress run")
    return 1


MANIFEST = {
    "technique": "Coq proof over an interleaving semantics with cancellation enabled in every state: ownership discipline "
                 "(no send on closed / double close) and constructive 'can always return' theorems for both engines; "
                 "pinned source skeletons + cancel-at-k runs of the real engines",
    "level_text": "C12_no_panic_*, C12_closed_is_dead_*, C12_app_call_can_return, C12_packet_streams_end, "
                  "C12_packet_call_returns_sender_frozen (the call comes back in a continuation in which the sender, the source, "
                  "the workers and the receiver take no step at all) hold for every "
                  "worker count, input and reachable state of the modelled networks (cancellation may fall anywhere); "
                  "C12_shape ties the models to the current goroutine structure; cancel-at-k runs of the real packet engine "
                  "and of the real startScanEngine path, and cancellations while the write path is blocked (sender asleep in "
                  "the real limiter at 1/30s, blocking device write) under the real startScanEngine, are judged by the property.",
    "level_note": "Partial: bounded-time return and select fairness are runtime behaviour (measured with a 5 s bound); the "
                  "models cover the engines, startScanEngine's logger/drain/caller and the error merger, not every request "
                  "generator. Trusted: Coq kernel+VM, Net.v semantics, skeleton extraction, harness mocks.",
    "design_ref": "DESIGN.md section 5 (C12)",
}
