"""C06 -- receive path: arbitrary frames never crash it and never yield phantom data."""
import glob
import hashlib
import json
import os
import re

import verif

RULE = ("plus an engine stage (20 000 distinct replies back to back through the real scan.SetupPacketEngine over an in-memory "
        "source, one record per frame with that frame's fields); plus an end-to-end stage (real afpacket source, kernel filter, real receiver, scan method; veth pair in a private "
        "namespace) fed histories 'long reply, then frames of other hosts that end after the IPv4/ARP header or inside the "
        "transport header, then a reply'; "
        "sequences of 1-4 raw frames (half of them through a ring of 1-4 REUSED receive buffers, as the zero-copy AF_PACKET "
        "ring hands out memory; the rest in fresh buffers) fed to the real ProcessPacketData of tcp (flags wiring and SYN wiring), icmp/udp and "
        "arp, Ethernet and raw-IP link modes; frame families: valid reply, truncated, one length/size/type field set to a "
        "boundary value, IP-in-IP, Ethernet-in-Ethernet, fragments, other protocols/ethertypes/802.3 lengths, malformed "
        "IP/TCP options, IP total-length variants, ARP with every address-size pattern incl. uint8 wrap-around, random "
        "bytes, ICMP error messages that quote the probe (complete quoted IPv4 header / fewer than 20 quoted bytes / cut inside "
        "the quoted header), plus fixed 'valid then header-less' sequences and, for the icmp and udp scan methods, 40 histories "
        "per link mode 'message with a complete quoted header, later messages of other senders with a short or cut quote' "
        "(judged first by: every address in a record occurs in the record's own frame); evaluations = frames; non-trivial = the frame gets past the "
        "first header (not rejected as too short for Ethernet/IPv4); distinct by (configuration, frame bytes)")

KIND = {"tcp": 0, "tcpsyn": 1, "icmp": 2, "udp": 2, "arp": 3}
SCAN = {"tcp": "tcpflags", "tcpsyn": "tcpsyn", "icmp": "icmp", "udp": "udp"}
LETTERS = [(1, "s"), (4, "a"), (0, "f"), (2, "r"), (3, "p"), (5, "u"), (6, "e"), (7, "c"), (8, "n")]


# ------------------------------------------------------------------ the property judged on the implementation alone
def be16(b, i):
    return b[i] * 256 + b[i + 1]


def ip_chain(p, proto):
    """p: bytes from the IPv4 header on. Returns the IPv4 payload if p starts with a well-formed, unfragmented
    IPv4 header carrying proto, else None. Independent re-statement of Spec.C06.ipv4_header / ip_body."""
    if len(p) < 20:
        return None
    ihl = p[0] & 15
    tl = be16(p, 2) or (len(p) % 65536)
    ff = be16(p, 6)
    if ihl < 5 or ihl * 4 > tl or ihl * 4 > len(p) or (ff >> 13) & 1 or ff & 0x1fff or p[9] != proto:
        return None
    return (p[:tl] if tl < len(p) else p)[ihl * 4:]


def expected_record(kind, vpn, f):
    """None if the frame lacks the header chain of the scanned protocol, else the record it stands for."""
    if kind == "arp":
        if len(f) < 14 or be16(f, 12) != 0x0806:
            return None
        a = f[14:]
        if len(a) < 28 or a[4] != 6 or a[5] != 4:
            return None
        return {"rec": "arp", "ip": list(a[14:18]), "mac": list(a[8:14])}
    if vpn:
        p = f
    else:
        if len(f) < 14 or be16(f, 12) != 0x0800:
            return None
        p = f[14:]
    if kind in ("icmp", "udp"):
        s = ip_chain(p, 1)
        if s is None or len(s) < 8:
            return None
        return {"rec": "icmp", "ip": list(p[12:16]), "ttl": p[8], "type": s[0], "code": s[1]}
    s = ip_chain(p, 6)
    if s is None or len(s) < 20 or (s[12] >> 4) < 5 or (s[12] >> 4) * 4 > len(s):
        return None
    fl = (s[12] & 1) << 8 | s[13]
    letters = "".join(c for b, c in LETTERS if fl >> b & 1)
    return {"rec": "tcp", "ip": list(p[12:16]), "port": be16(s, 0), "flags": letters if kind == "tcp" else ""}


def judge(kind, vpn, frame_hex, o):
    """Returns None or (key, reason)."""
    f = bytes.fromhex(frame_hex)
    if o["k"] == 3:
        return ("crash:" + kind, "ProcessPacketData panics outside gopacket's recover (the scan process dies): " + o.get("panic", ""))
    if o["k"] == 4 or o["n"] > 1:
        return ("multi:" + kind, "the frame yields %d records / a record together with an error" % o["n"])
    if o["k"] != 1:
        return None
    exp = expected_record(kind, vpn, f)
    got = {"rec": o["rec"], "ip": o["ip"]}
    if o["rec"] == "tcp":
        got.update(port=o["port"], flags=o["flags"])
    elif o["rec"] == "icmp":
        got.update(ttl=o["ttl"], type=o["type"], code=o["code"])
    else:
        got.update(mac=o["mac"])
    shown = o.get("iptext", "") + (" %d %s" % (o["port"], o["flags"]) if o["rec"] == "tcp" else
                                    " type %d code %d ttl %d" % (o["type"], o["code"], o["ttl"]) if o["rec"] == "icmp" else
                                    " " + o.get("mactext", ""))
    if exp is None:
        return ("phantom:" + kind, "a record (%s) is emitted for a frame that has no well-formed header chain %s" % (
            shown.strip(), {"tcp": "IPv4+TCP", "tcpsyn": "IPv4+TCP", "icmp": "IPv4+ICMP", "udp": "IPv4+ICMP", "arp": "Ethernet/IPv4 ARP (6/4)"}[kind]
            + (" in raw-IP link mode" if vpn else "")))
    if got != exp:
        return ("fields:" + kind, "the record (%s) differs from the fields of the frame itself (%s)" % (shown.strip(), exp))
    if o["rec"] == "arp" and not o["vendor_ok"]:
        return ("vendor:arp", "the vendor is not the vendor of the reported MAC's prefix")
    if o["rec"] != "arp" and o.get("scan") != SCAN[kind]:
        return ("scan:" + kind, "scan type %r in the record" % o.get("scan"))
    return None


def foreign(kind, vpn, frames, i, o):
    """The last sentence of the property on its own: every field of the record that frame i yields is taken from frame i.
    Returns None or (key, reason) when the reported address occurs NOWHERE in the bytes of the frame that yielded the
    record (phantom data); the reason names the earlier frame of the history the address is left over from, if any.
    (Entailed by judge(): a record that fails here also fails the exact comparison with the frame's own fields.)"""
    if o["k"] != 1 or len(o["ip"]) != 4 or min(o["ip"]) < 0:
        return None
    f = bytes.fromhex(frames[i])
    a = bytes(o["ip"])
    if expected_record(kind, vpn, f) is None or a in f:
        return None
    src = ""
    for j in range(i - 1, -1, -1):
        g = bytes.fromhex(frames[j])
        if a in g:
            src = "; these are bytes %d..%d of frame %d of the history (left over from that earlier frame)" % (g.index(a), g.index(a) + 3, j)
            break
    exp = expected_record(kind, vpn, f)
    return ("leftover:" + kind, "frame %d has the header chain and yields a record, but the address in the record (%s) occurs nowhere in "
                                "that frame (its own fields: %s)%s" % (i, o.get("iptext", ""), exp, src))


# ------------------------------------------------------------------ model side
def nf(o):
    def bl(b):
        return "[" + ";".join(str(int(x)) for x in b) + "]"
    if o["k"] == 0:
        return "(0,[],[])"
    if o["k"] == 2:
        return "(2,[%d],[])" % o["err"]
    if o["k"] == 3:
        return "(3,[],[])"
    if o["k"] in (4, 5):
        return "(%d,[],[])" % o["k"]
    if o["rec"] == "tcp":
        return "(1,[10;%d],[%s;%s])" % (o["port"], bl(o["ip"]), bl([ord(c) for c in o["flags"]]))
    if o["rec"] == "icmp":
        return "(1,[11;%d;%d;%d],[%s])" % (o["ttl"], o["type"], o["code"], bl(o["ip"]))
    v = 2 if len(o["mac"]) < 3 else (1 if o["vendor_ok"] else 0)
    return "(1,[12;%d],[%s;%s])" % (v, bl(o["ip"]), bl(o["mac"]))


def case_term(r):
    return "{| c_kind := %d; c_vpn := %s; c_frames := [%s]; c_obs := [%s] |}" % (
        KIND[r["kind"]], verif.coq_bool(r["vpn"]),
        ";".join(verif.coq_packed(bytes.fromhex(h)) for h in r["frames"][:len(r["obs"])]),
        ";".join(nf(o) for o in r["obs"]))


def case_file(rows):
    return "\n".join([
        "From Coq Require Import ZArith List Uint63.",
        "From SX Require Import Base.Bytes Model.Decode Model.Process Spec.C06.",
        "Import ListNotations.", "Open Scope Z_scope.",
        "Definition cases : list case := [", ";\n".join(case_term(r) for r in rows), "].",
        "Definition M := Eval vm_compute in check_all code_valid 0 cases.",
        "Definition L := Eval vm_compute in total_outcomes code_valid cases.",
        "Print M. Print L."])


def parse_eval(ctx, out, rows):
    m = ctx.parse_result(out, "M")
    n_model = int(ctx.parse_result(out, "L"))
    n_impl = sum(len(r["obs"]) for r in rows)
    bad = []
    if m.strip() not in ("[]", "nil"):
        # outer pairs are (index%nat, [...]); the normal forms inside carry no %nat
        raw = " ".join(out.split())
        raw = raw[raw.index("M ="):raw.index("L =")] if "L =" in raw else raw
        bad = [int(i) for i in re.findall(r"\((\d+)%nat,", raw)]
        if not bad:
            raise verif.Broken("cannot parse mismatch list", m[:500])
    if n_model != n_impl and not bad:
        raise verif.Broken("outcome count differs between harness and model (%d vs %d)" % (n_impl, n_model))
    return bad, m


# ------------------------------------------------------------------ reporting
def have_cmd_driver():
    return os.path.exists(os.path.join(verif.REPO, "command", "verif_export_c06.go"))


def run_sequences(ctx, seqs, tag, driver="c06"):
    """Run explicit sequences [{kind,vpn,frames}] on the real code; returns rows. driver c06 = processors from the
    library constructors, c06cmd = the scan methods as the commands build them."""
    path = os.path.join(ctx.work, tag + ".in.json")
    with open(path, "w") as f:
        json.dump(seqs, f)
    ok, _ = ctx.harness_run(driver, ["-out", tag + ".jsonl", "-replay", path], timeout=600)
    rows = ctx.read_jsonl(os.path.join(ctx.work, tag + ".jsonl")) if ok else []
    for r in rows:
        r["driver"] = driver
    return rows


def first_violation(row):
    for i, o in enumerate(row["obs"]):
        why = judge(row["kind"], row["vpn"], row["frames"][i], o)
        if why:
            return i, why
    return None


def first_foreign(row):
    for i, o in enumerate(row["obs"]):
        why = foreign(row["kind"], row["vpn"], row["frames"], i, o)
        if why:
            return i, why
    return None


def minimise(ctx, row, i, key, finder=None):
    """Shortest sub-sequence ending in frame i that still shows a violation with the same key. Also returns a
    two-frame sequence in which frame i yields a DIFFERENT record than it yields alone (left-over state), if any."""
    fr = row["frames"]
    ring = row.get("ring", 0)
    # records are read after the whole sequence, so a later frame can also be what spoils the record of frame i
    cands = ([([fr[i]], ring)] + [([fr[j], fr[i]], r) for j in range(i) for r in sorted({0, ring, min(ring, 1)})]
             + [([fr[i], fr[k]], ring) for k in range(i + 1, len(fr))] + [(fr[:i + 1], ring), (fr, ring)])
    rows = run_sequences(ctx, [{"kind": row["kind"], "vpn": row["vpn"], "ring": r, "frames": c} for c, r in cands], "min",
                         row.get("driver", "c06"))
    best, stale = None, None
    for r in rows:
        v = (finder or first_violation)(r)
        if best is None and v and v[1][0] == key:
            best = (r, v[0], v[1])
        if (stale is None and rows and len(r["obs"]) == len(r["frames"]) > 1 and len(rows[0]["obs"]) == 1
                and r["frames"][-1] == fr[i]
                and r["obs"][-1]["k"] == 1 and nf(r["obs"][-1]) != nf(rows[0]["obs"][0])):
            stale = (r, rows[0]["obs"][0])
    return (best or (row, i, None)), stale


def report(ctx, row, i, why, seen, finder=None):
    key, reason = why
    key0 = key
    if row.get("driver") == "c06cmd":
        key, reason = key + ":cmd", "[scan method as built by the `%s` command%s] %s" % (
            row["kind"], ", VPN mode" if row["vpn"] else "", reason)
    if key in seen:
        seen[key] += 1
        return
    seen[key] = 1
    (small, j, why2), stale = minimise(ctx, row, i, key0, finder)
    if why2:
        reason = why2[1]
    path = ctx.write_replay(key.replace(":", "-"), {
        "property": "C06", "what": reason,
        "input": {"kind": small["kind"], "vpn": small["vpn"], "ring": small.get("ring", 0), "driver": row.get("driver", "c06"),
                  "frames": small["frames"], "failing_frame": j},
        "observed": small["obs"], "replay_cmd": "bin/check C06 --replay <this file>"})
    ctx.findings.append({"key": key, "what": reason, "replay": path})
    skey = "stale:" + row["kind"]
    if stale and skey not in seen:
        seen[skey] = 1
        r, alone = stale
        what = ("the record of the last frame depends on an EARLIER frame: after the first frame it is reported as %s, "
                "alone it is reported as %s" % (nf(r["obs"][-1]), nf(alone)))
        path = ctx.write_replay(skey.replace(":", "-"), {
            "property": "C06", "what": what,
            "input": {"kind": r["kind"], "vpn": r["vpn"], "ring": r.get("ring", 0), "driver": row.get("driver", "c06"),
                      "frames": r["frames"],
                      "failing_frame": len(r["frames"]) - 1},
            "observed": r["obs"], "alone": alone, "replay_cmd": "bin/check C06 --replay <this file>"})
        ctx.findings.append({"key": skey, "what": what, "replay": path})


def witnesses():
    """The witnesses of the _refuted_orig theorems of Properties/C06.v (same bytes)."""
    eth = [2, 0, 0, 0, 0, 1, 2, 0, 0, 0, 0, 2, 8, 0]
    synack = eth + [69, 0, 0, 40, 0, 1, 64, 0, 64, 6, 0, 0, 10, 0, 0, 1, 192, 168, 0, 9] + \
        [0, 80, 156, 64, 0, 0, 0, 1, 0, 0, 0, 2, 80, 18, 250, 240, 0, 0, 0, 0]
    ipip = eth + [69, 0, 0, 40, 0, 2, 0, 0, 64, 4, 0, 0, 10, 0, 0, 2, 192, 168, 0, 9] + \
        [69, 0, 0, 20, 0, 3, 0, 0, 77, 6, 0, 0, 7, 7, 7, 7, 192, 168, 0, 9]
    earp = [255] * 6 + [0, 17, 34, 51, 68, 85, 8, 6]
    zero = earp + [0, 1, 8, 0, 0, 0, 0, 2]
    a816 = earp + [0, 1, 8, 0, 8, 16, 0, 2] + [9] * 8 + [7] * 16 + [0] * 8 + [1] * 16
    hx = lambda b: bytes(b).hex()
    return [{"kind": "tcp", "vpn": False, "frames": [hx(synack), hx(ipip)]},
            {"kind": "arp", "vpn": False, "frames": [hx(zero)]},
            {"kind": "arp", "vpn": False, "frames": [hx(a816)]}]


# ------------------------------------------------------------------ end-to-end stage: the real AF_PACKET source and receiver
E2E_WIRING = [
    {"cmd": "tcp --flags", "method": "tcp", "pf": "1" * 512, "allflags": True, "filter": 0, "chunked": True, "vpn_source": True, "vpn_method": True},
    {"cmd": "icmp", "method": "icmp", "pf": "", "allflags": False, "filter": 2, "chunked": False, "vpn_source": True, "vpn_method": True},
    {"cmd": "udp", "method": "udp", "pf": "", "allflags": False, "filter": 2, "chunked": True, "vpn_source": True, "vpn_method": True},
    {"cmd": "arp", "method": "arp", "pf": "", "allflags": False, "filter": 3, "chunked": False, "vpn_source": False, "vpn_method": False},
]
E2E_KIND = {"tcp --flags": "tcp", "icmp": "icmp", "udp": "udp", "arp": "arp"}


def e2e_cases():
    """Histories for the real packet source: a long well-formed reply, then frames of OTHER hosts that end right after
    the IPv4 / ARP fixed header or inside the transport header (their total length claims more), then a reply again."""
    eth = lambda t: [2, 0, 0, 0, 0, 1, 2, 0, 0, 0, 0, 2, t >> 8, t & 255]
    def ip(src, proto, total, ihl=5, opts=()):
        return [0x40 | ihl, 0, total >> 8, total & 255, 0, 1, 64, 0, 64, proto, 0, 0] + src + [192, 168, 0, 9] + list(opts)
    tcp = lambda sp, fl: [sp >> 8, sp & 255, 156, 64, 0, 0, 0, 1, 0, 0, 0, 2, 80, fl, 250, 240, 0, 0, 0, 0]
    icmp = lambda t, c: [t, c, 0, 0, 0, 1, 0, 1]
    pay = list(range(1, 31))
    hx = lambda b: bytes(b).hex()
    out = []
    for ihl, opts in ((5, ()), (6, (1, 1, 1, 0))):
        h = ihl * 4
        t_long = eth(0x0800) + ip([10, 1, 1, 1], 6, h + 20 + 30, ihl, opts) + tcp(443, 0x12) + pay
        t_hdr = eth(0x0800) + ip([10, 2, 2, 2], 6, h + 20, ihl, opts)                   # ends after the IPv4 header
        t_mid = eth(0x0800) + ip([10, 3, 3, 3], 6, h + 20, ihl, opts) + tcp(80, 0x14)[:10]  # ends inside the TCP header
        t_ok = eth(0x0800) + ip([10, 4, 4, 4], 6, h + 20, ihl, opts) + tcp(22, 0x14)
        out.append({"w": 0, "subnet": "", "ports": [], "frames": [hx(t_long), hx(t_hdr), hx(t_mid), hx(t_ok), hx(t_hdr[:14 + h - 4] + [9, 9, 9, 9])]})
        i_long = eth(0x0800) + ip([10, 1, 1, 1], 1, h + 8 + 30, ihl, opts) + icmp(3, 3) + pay
        i_hdr = eth(0x0800) + ip([10, 2, 2, 2], 1, h + 8, ihl, opts)
        i_mid = eth(0x0800) + ip([10, 3, 3, 3], 1, h + 8, ihl, opts) + icmp(11, 0)[:4]
        i_ok = eth(0x0800) + ip([10, 4, 4, 4], 1, h + 8, ihl, opts) + icmp(0, 0)
        for w in (1, 2):
            out.append({"w": w, "subnet": "", "ports": [], "frames": [hx(i_long), hx(i_hdr), hx(i_mid), hx(i_ok)]})
    # a burst of distinct replies of different lengths: every record must be its own frame's
    burst = []
    for n in range(60):
        burst.append(hx(eth(0x0800) + ip([10, 9, n, 1 + n], 6, 40 + (n * 7) % 23) + tcp(2000 + n, [0x12, 0x14, 0x11, 0x10][n % 4]) + pay[:(n * 7) % 23]))
    out.append({"w": 0, "subnet": "", "ports": [], "frames": burst})
    arp = lambda mac, spa: [0, 1, 8, 0, 6, 4, 0, 2] + mac + spa + [2, 0, 0, 0, 0, 1, 192, 168, 0, 9]
    a_long = eth(0x0806) + arp([0, 17, 34, 51, 68, 85], [10, 1, 1, 1]) + [0] * 18
    a_hdr = eth(0x0806) + arp([0, 17, 34, 51, 68, 86], [10, 2, 2, 2])[:8]
    a_mid = eth(0x0806) + arp([0, 17, 34, 51, 68, 87], [10, 3, 3, 3])[:16]
    a_ok = eth(0x0806) + arp([2, 17, 34, 51, 68, 88], [10, 4, 4, 4])
    out.append({"w": 3, "subnet": "", "ports": [], "frames": [hx(a_long), hx(a_hdr), hx(a_mid), hx(a_ok)]})
    return out


def run_e2e_stage(ctx, cases, seen, tag="e2e"):
    from checks import c03 as c03mod
    with open(os.path.join(ctx.work, "wiring.json"), "w") as f:
        json.dump(E2E_WIRING, f)
    path = os.path.join(ctx.work, tag + ".in.json")
    with open(path, "w") as f:
        json.dump(cases, f)
    rows = c03mod.run_e2e(ctx, ["-replay", path], tag)
    for c in rows:
        kind = E2E_KIND.get(c["cmd"], "tcp")
        if c.get("err"):
            ctx.broken.append(("correspondence: e2e run of %s failed: %s" % (c["cmd"], c["err"]), ""))
            continue
        frames = [x["frame"] for x in c["frames"]]
        bad = []
        for n, fo in enumerate(c["frames"]):
            if not fo["sent"]:
                continue
            ctx.count("e2e/%s/%s" % (kind, "record" if fo["record"] else "none"),
                      hashlib.md5(("e2e" + kind + fo["frame"] + str(n)).encode()).digest(), nontrivial=True)
            if fo["n"] > 1:
                bad.append((n, "multi", "%d records for one frame" % fo["n"]))
            if fo["record"]:
                o = {"k": 1, "n": 1, "rec": {"udp": "icmp"}.get(kind, kind), "ip": [int(x) for x in fo["ip"].split(".")] if fo.get("ip") else [],
                     "iptext": fo.get("ip", ""), "port": fo["port"], "flags": fo["flags"], "ttl": fo["ttl"], "type": fo["type"],
                     "code": fo["code"], "mac": [int(x, 16) for x in fo["mac"].split(":")] if fo.get("mac") else [],
                     "mactext": fo.get("mac", ""), "vendor_ok": True, "scan": SCAN.get(kind)}
                why = judge(kind, False, fo["frame"], o)
                if why:
                    bad.append((n, why[0].split(":")[0], why[1]))
        for u in c.get("unmatched_recs") or []:
            # a record whose fields fit no injected frame: attribute it to the frame from that source address
            n = [k for k, fh in enumerate(frames) if ".".join(str(b) for b in bytes.fromhex(fh)[28 if kind == "arp" else 26:][:4]) == u.get("ip")]
            n = n[0] if n else len(frames) - 1
            exp = expected_record(kind, False, bytes.fromhex(frames[n]))
            got = {k: u[k] for k in ("ip", "port", "flags", "ttl", "type", "code", "mac") if u.get(k) not in (None, "", 0)}
            if exp is None:
                bad.append((n, "phantom", "the record %s is emitted for the frame from %s, which has no well-formed header chain of "
                                          "the scan (it ends before its transport header)" % (got, u.get("ip"))))
            else:
                bad.append((n, "extra", "an additional record %s appears that no injected frame accounts for: its fields are not "
                                        "those of one frame of the history (bytes or decoder state of another frame)" % got))
        for n, cls, what in bad[:1]:
            key = "%s:e2e:%s" % (cls, kind)
            if key in seen:
                seen[key] += 1
                continue
            seen[key] = 1
            rp = ctx.write_replay(key.replace(":", "-"), {
                "property": "C06", "what": "[real AF_PACKET source + receiver + %s scan method on a veth pair] %s" % (kind, what),
                "input": {"e2e": True, "w": c["w"], "kind": kind, "frames": frames, "failing_frame": n},
                "observed": c["frames"], "unmatched": c.get("unmatched"), "replay_cmd": "bin/check C06 --replay <this file>"})
            ctx.findings.append({"key": key, "what": what, "replay": rp})
    return rows


def run_engine(ctx, n, seen):
    """n distinct plain replies back to back through the REAL scan.SetupPacketEngine (receiver(s) + scan method over an in-memory
    source, GOMAXPROCS >= 4): exactly one record per frame, each with that frame's own fields."""
    ok, _ = ctx.harness_run("c06", ["-engine", "-out", "engine.jsonl", "-n", n], timeout=900)
    if not ok:
        return
    for e in ctx.read_jsonl(os.path.join(ctx.work, "engine.jsonl")):
        bad = e["foreign"] or e["dups"]
        ctx.count("engine/%s/%s" % (e["kind"], "bad" if bad else "one-record-per-frame"), ("engine", e["kind"], e["n"]), nontrivial=True)
        ctx.cov["evaluations"] += e["n"] - 1
        if e.get("errtext") == "timeout":
            ctx.broken.append(("correspondence: engine stage of %s timed out" % e["kind"], ""))
        if not bad:
            continue
        key = ("fields" if e["foreign"] else "multi") + ":engine:" + e["kind"]
        if key in seen:
            continue
        seen[key] = 1
        what = ("[real scan.SetupPacketEngine + %s scan method, %d distinct plain replies handed out back to back, GOMAXPROCS %d] %d records "
                "carry fields of no single frame of the burst, %d records repeat an already reported frame, %d frames have no record; %s" % (
                    e["kind"], e["n"], e["gomaxprocs"], e["foreign"], e["dups"], e["missing"], "; ".join(e.get("sample") or [])))
        rp = ctx.write_replay(key.replace(":", "-"), {
            "property": "C06", "what": what,
            "input": {"engine": True, "kind": e["kind"], "n": e["n"], "first_frames": e.get("frames"),
                      "note": "frame i of the burst is built by engineFrame(kind, i) in harness/cmd/c06/engine.go"},
            "observed": {k: v for k, v in e.items() if k != "frames"}, "replay_cmd": "bin/check C06 --replay <this file>"})
        ctx.findings.append({"key": key, "what": what, "replay": rp})


def run_closerace(ctx, seen, tag="closerace"):
    """A reply read from the real afpacket.Source just before Close and processed just after it (the schedule of every scan
    end and port-chunk boundary, made deterministic by the driver) must still be processed from intact bytes."""
    from checks import c03 as c03mod
    with open(os.path.join(ctx.work, "wiring.json"), "w") as f:
        json.dump(E2E_WIRING, f)
    for c in c03mod.run_e2e(ctx, ["-closerace", "-seed", ctx.seed], tag):
        kind = E2E_KIND.get(c["cmd"], "tcp")
        if c.get("setup"):
            ctx.skipped.append("close-race stage (%s): %s" % (kind, c["setup"]))
            continue
        ctx.count("closerace/%s/%s" % (kind, "record" if c["record"] else "no-record"),
                  hashlib.md5(("closerace" + kind + c["frame"]).encode()).digest(), nontrivial=True)
        if c["record"] and c["same"] and not c.get("err") and not c.get("panic"):
            continue
        key = "crash:close:" + kind
        if key in seen:
            continue
        seen[key] = 1
        what = ("[real afpacket.Source + %s scan method] a well-formed reply is read from the packet source, the source is closed "
                "(scan end / port-chunk boundary: ps.Close() does not wait for the receiver) and the frame is then processed: %s; "
                "the bytes handed to ProcessPacketData no longer are the frame (they lie in the unmapped rx ring: in the real "
                "process this is a fatal memory fault while processing a received frame)" % (
                    kind, ("ProcessPacketData fails with %r" % (c.get("panic") or c.get("err"))) if (c.get("panic") or c.get("err"))
                    else "no record / altered bytes"))
        rp = ctx.write_replay(key.replace(":", "-"), {
            "property": "C06", "what": what, "input": {"closerace": True, "kind": kind, "frames": [c["frame"]]},
            "observed": c, "replay_cmd": "bin/check C06 --replay <this file>"})
        ctx.findings.append({"key": key, "what": what, "replay": rp})


def run(ctx):
    quick = ctx.tier == "quick"
    ctx.trusted += [
        "gopacket's DecodingLayerParser and the Ethernet/IPv4/TCP/ICMPv4/ARP decoders are modelled by hand "
        "(Model/Decode.v) and tied by differential testing only; frames are delivered in exact-capacity buffers",
        "tools/gen/validpacket.go transcribes validPacket / the guard of ProcessPacketData and the decoder list of "
        "NewDecodingLayerParser",
        "has_chain does not examine the IP version nibble or checksums (neither does the code nor the capture filter)",
    ]
    ctx.assumptions += ["one ProcessPacketData call at a time per processor (the receiver is a single goroutine)"]
    gen_ok = ctx.gen()
    model_ok = gen_ok and ctx.coq_model(["Spec/C06.vo"])
    proof_ok = gen_ok and ctx.coq_proofs("Properties/C06.v")
    rows = []
    seen = {}
    if ctx.harness_build("c06"):
        # corpus + theorem witnesses first
        seqs = witnesses()
        for p in sorted(glob.glob(os.path.join(verif.ROOT, "corpus", "C06", "*.json"))):
            j = json.load(open(p))
            seqs += j if isinstance(j, list) else [j]
        rows += run_sequences(ctx, seqs, "corpus")
        args = ["-out", "cases.jsonl", "-seed", ctx.seed, "-n", 1900 if quick else 115000, "-big", 20 if quick else 600,
                "-quoted", 40 if quick else 3000]
        if not quick:
            args.append("-alltrunc")
        ok, _ = ctx.harness_run("c06", args, timeout=3000)
        if ok:
            rows += ctx.read_jsonl(os.path.join(ctx.work, "cases.jsonl"))
        # the same generator against the scan methods as the commands build them (both link modes)
        if not have_cmd_driver():
            ctx.skipped.append("command-built scan methods: hook command/verif_export_c06.go is not in the tree")
        elif ctx.harness_build("c06cmd"):
            ok, _ = ctx.harness_run("c06cmd", ["-out", "cmd.jsonl", "-seed", ctx.seed + 17, "-n", 500 if quick else 20000,
                                               "-big", 4 if quick else 100, "-quoted", 15 if quick else 600], timeout=3000)
            if ok:
                more = ctx.read_jsonl(os.path.join(ctx.work, "cmd.jsonl"))
                for r in more:
                    r["driver"] = "c06cmd"
                rows += more
    # the property's last sentence on its own first (a value in a record that is nowhere in the record's own frame), then the
    # exact comparison of every record with its frame's fields
    for r in rows:
        v = first_foreign(r)
        if v:
            report(ctx, r, v[0], v[1], seen, first_foreign)
    for r in rows:
        for i, o in enumerate(r["obs"]):
            cls = "%s%s/%s/%s%s/%s" % ("cmd:" if r.get("driver") == "c06cmd" else "", r["kind"], "raw-ip" if r["vpn"] else "eth", r["classes"][i], "+ring" if r.get("ring") else "",
                                    ["none", "record", "error", "crash", "multi", "unobservable"][o["k"]])
            key = hashlib.md5((r["kind"] + str(r["vpn"]) + r["frames"][i]).encode()).digest()
            key = key + (b"cmd" if r.get("driver") == "c06cmd" else b"")
            ctx.count(cls, key, nontrivial=not (o["k"] == 2 and o["err"] in (1, 2) and i == 0 or
                                                o["k"] == 2 and o["err"] == 1),
                      sample={"kind": r["kind"], "vpn": r["vpn"], "family": r["classes"][i], "frame": r["frames"][i][:160],
                              "observed": {k: v for k, v in o.items() if v not in ("", [], 0, False) or k == "k"}})
        v = first_violation(r)
        if v:
            report(ctx, r, v[0], v[1], seen)
    # the real packet source and receiver in front of the processors (needs the C03 e2e driver and a network namespace)
    run_engine(ctx, 20000 if quick else 200000, seen)
    run_e2e_stage(ctx, e2e_cases(), seen)
    run_closerace(ctx, seen)
    for k, n in seen.items():
        if n > 1:
            ctx.info.append("%d more sequences show the violation class %s" % (n - 1, k))
    if model_ok and rows:
        nshards = 16 if quick else 96
        size = max(1, (len(rows) + nshards - 1) // nshards)
        parts = [rows[i:i + size] for i in range(0, len(rows), size)]
        outs = ctx.coq_eval_many([("cases_%d" % i, case_file(p)) for i, p in enumerate(parts)], timeout=3000)
        nbad = 0
        for part, out in zip(parts, outs):
            bad, raw = parse_eval(ctx, out, part)
            for idx in bad:
                nbad += 1
                if nbad <= 5:
                    r = part[idx]
                    ctx.broken.append(("correspondence: %s %s frames=%d: the real ProcessPacketData and the model disagree" % (
                        r["kind"], "raw-ip" if r["vpn"] else "eth", len(r["frames"])),
                        json.dumps({"frames": r["frames"], "observed": [nf(o) for o in r["obs"]], "model_mismatches": raw[:1500]})[:3000]))
            ctx.cov["traces_validated_against_impl"] += sum(len(r["obs"]) for r in part)
        if nbad > 5:
            ctx.broken.append(("correspondence: %d sequences disagree in total" % nbad, ""))
    if ctx.broken and not ctx.findings and os.path.exists(os.path.join(verif.HBIN, "c06")):
        # a proof or the tie broke but the standard run shows no violation: look harder
        ok, _ = ctx.harness_run("c06", ["-out", "search.jsonl", "-seed", ctx.seed + 1000, "-n", 30000, "-big", 200, "-alltrunc"],
                                timeout=3000)
        if ok:
            for r in ctx.read_jsonl(os.path.join(ctx.work, "search.jsonl")):
                v = first_foreign(r)
                if v:
                    report(ctx, r, v[0], v[1], seen, first_foreign)
                v = first_violation(r)
                if v:
                    report(ctx, r, v[0], v[1], seen)
    return ctx.finish(rule=RULE)


def replay(ctx, path):
    r = json.load(open(path))
    if "input" not in r:
        print(json.dumps(r, indent=1))
        return 1
    i = r["input"]
    if i.get("engine"):
        seen = {}
        if not ctx.harness_build("c06"):
            return 1
        run_engine(ctx, i["n"], seen)
        for fd in ctx.findings:
            print("engine replay: " + fd["what"][:600])
        print("replay: " + ("the property FAILS on this input" if ctx.findings else "the property holds on this input"))
        return 1 if ctx.findings else 0
    if i.get("closerace"):
        seen = {}
        run_closerace(ctx, seen, "closerace-replay")
        for fd in ctx.findings:
            print("close-race replay: " + fd["what"])
        print("replay: " + ("the property FAILS on this input" if ctx.findings else "the property holds on this input"))
        return 1 if ctx.findings else 0
    if i.get("e2e"):
        seen = {}
        run_e2e_stage(ctx, [{"w": i["w"], "subnet": "", "ports": [], "frames": i["frames"]}], seen, "e2e-replay")
        for fd in ctx.findings:
            print("e2e replay: " + fd["what"])
        for b in ctx.broken + [(x, "") for x in ctx.skipped]:
            print("e2e replay: " + b[0])
        print("replay: " + ("the property FAILS on this input" if ctx.findings else "the property holds on this input"))
        return 1 if ctx.findings or ctx.broken else 0
    if not ctx.harness_build(i.get("driver", "c06")):
        return 1
    rows = run_sequences(ctx, [{"kind": i["kind"], "vpn": i["vpn"], "ring": i.get("ring", 0), "frames": i["frames"]}], "replay",
                         i.get("driver", "c06"))
    if not rows:
        print("replay: the harness did not run")
        return 1
    rc = 0
    for n, o in enumerate(rows[0]["obs"]):
        why = foreign(i["kind"], i["vpn"], i["frames"], n, o) or judge(i["kind"], i["vpn"], i["frames"][n], o)
        shown = {k: v for k, v in o.items() if v not in ("", [], 0, False) or k == "k"}
        print("frame %d (%s...): %s -> %s" % (n, i["frames"][n][:48], json.dumps(shown), why[1] if why else "ok"))
        if why:
            rc = 1
    print("replay: " + ("the property FAILS on this input" if rc else "the property holds on this input"))
    return rc


MANIFEST = {
    "technique": "Coq proof (induction over the parser loop and over frame sequences, for all decoder states) about a "
                 "hand-written executable model of the gopacket decoders and ProcessPacketData + translated validPacket / "
                 "decoder lists + differential correspondence on frame sequences",
    "level_text": "Theorems C06_total_no_crash, C06_at_most_one, C06_only_from_chain, C06_record_fields, C06_no_stale(_seq), "
                  "C06_frame_alone, C06_sequence hold for all frames (any list of integers), all sequences and all decoder "
                  "states, for the tcp/icmp(udp)/arp processors in both link modes, over the validPacket predicate and the "
                  "decoder lists regenerated from pkg/scan/{tcp,icmp,arp} on every run; the model is compared with the real "
                  "ProcessPacketData (record fields, error class, crash) on ~4 700 frames in sequences per quick run.",
    "level_note": "Trusted: Coq kernel + VM; the hand-written model of gopacket's parser loop and five decoders (tied by "
                  "differential testing, all 19 error classes exercised); tools/gen/validpacket.go; harness comparison. "
                  "No axioms. has_chain ignores the IP version nibble and checksums. The code as found violates C06 "
                  "(_refuted_orig theorems; fix patch fixes/c06/fix-validpacket-layer-types.patch).",
    "design_ref": "DESIGN.md section 5 (C06)",
}
