"""C01 -- coverage: every specified target is probed exactly once per pass."""
import collections
import json
import os

import verif
from checks import tgtlib as T

RULE = ("(i) port generator alone: 1..450 ranges (singletons, adjacent, overlapping, 0 and 65535 ends, >200 ranges, the full "
        "range, empty and inverted lists), seeded math/rand, exact sequence; (ii) nested generator over scripted sources "
        "(error getters, failing re-open), exact nested order; (iii) the chains of tcp / udp / icmp / arp (scan methods) and of "
        "socks-docker-elastic (real GenericEngine, recording scanner): subnets /20../32 aligned and unaligned x port ranges, "
        "well-formed pairs files, address files x port ranges from a regular file and from stdin, port-less scans; --exclude "
        "on/off, ARP cache with gateway on/off; multisets of probes and error records; the same for udp/tcp/icmp/arp observed on the decoded FRAMES of the command's "
        "real packet source (own filler, NumCPU workers, merger) with 1500..20000 requests; non-trivial = at least 2 probes or a "
        "refused port list; distinct by case seed; (iv) end to end: the sx binary in a private network namespace (veth pair, "
        "packet socket as wire log): tcp subnet x ports with exclusion, tcp pairs file without -p, udp address file x ports, tcp "
        "address list on stdin x 3 ports, tcp /31 x 400+ port ranges (3 chunks), arp, icmp; socks over local addresses with a listener as the log; table-driven: every packet command (arp, icmp, udp, tcp, "
        "tcp syn/fin/null/xmas, tcp --flags) on a /30, once normally and once pinned to ONE cpu (taskset: runtime.NumCPU() == 1); every port command once more with the ports "
        "from --ports-file only; socks / elastic / elastic https / docker against local listeners with HTTP_PROXY, HTTPS_PROXY, ALL_PROXY "
        "and DOCKER_HOST pointing at a decoy; a chunked SYN scan of 201 ports whose first probes are answered with malformed "
        "SYN+ACKs; (v) the chunk loop replayed on the real tcp/udp request generator over a /20../21 x 201..203 port ranges")

CODES = {1: "port generator: error differs from the model", 2: "port generator: port sequence differs from the model",
         3: "port generator: channel not closed",
         11: "nested generator: error return differs", 12: "nested generator: request sequence differs from the model",
         13: "nested generator: channel not closed",
         21: "chain: error records differ from the model (as a multiset)", 22: "chain: probes differ from the model chain (as a multiset)",
         23: "chain: the model chain ends abnormally", 24: "chain: probes differ from what the specification denotes"}


def ranges_term(o):
    return verif.coq_list(["(%d, %d)" % (s, e) for s, e in (o.get("ranges") or [])])


def case_term(o):
    k = o["kind"]
    if k == "ports":
        draws = verif.coq_list(["(%s, %s)" % (verif.coq_z(a), verif.coq_z(b)) for a, b in (o.get("draws") or [])])
        return "CPorts {| pt_ranges := %s; pt_draws := %s; pt_err := %d; pt_complete := %s; pt_out := %s |}" % (
            ranges_term(o), draws, o["err"], verif.coq_bool(o["complete"]), T.packed(o.get("out")))
    if k == "nested":
        ports = verif.coq_list(["(%d, %d)" % (v, e) for v, e in (o.get("ports") or [])])
        ips = verif.coq_list(["(%d, %s)" % (c["err"], verif.coq_list(["(%s, %s)" % (T.zl(h), e) for h, e in (c.get("items") or [])]))
                              for c in (o.get("ips") or [])])
        return ("CNested {| ns_ports_err := %d; ns_ports := %s; ns_ips := %s; ns_err := %d; ns_complete := %s; ns_out := %s |}") % (
            o.get("ports_err", 0), ports, ips, o["err"], verif.coq_bool(o["complete"]), T.packed(o.get("out")))
    net = "(Some (%s, %s))" % (T.zl(o["net_ip"]), T.zl(o["net_mask"])) if o["target"] == 0 else "None"
    f = "None"
    if o["filter"]:
        f = "(Some %s)" % verif.coq_list(["(%s, %s)" % (verif.coq_z(b), verif.coq_z(p)) for b, p in o["nets"]])
    c = "(Some %s)" % T.packed(o["cache_enc"]) if o["cache"] else "None"
    return ("CChain {| cc_portless := %s; cc_target := %d; cc_net := %s; cc_lines := %s; cc_openable := true; "
            "cc_stages := {| sc_filter := %s; sc_cache := %s |}; cc_ranges := %s; cc_err := %d; cc_probes := %s; cc_errors := %s |}") % (
        verif.coq_bool(o.get("portless", False)), o["target"], net, T.packed(o.get("lines_enc")), f, c, ranges_term(o),
        o["err"], T.packed(o.get("probes")), verif.coq_list([str(e) for e in (o.get("errors") or [])]))


def all_ports(ranges):
    ps = []
    for s, e in ranges or []:
        ps += list(range(s, e + 1))
    return ps


def key(x, p):
    return x.to_bytes(4, "big") + p.to_bytes(2, "big")


def denote(o):
    """the multiset the target specification denotes, minus excluded addresses, computed from what the generator of
    the case knows by construction"""
    nets = o.get("nets") or []

    def kept(x):
        return not (o["filter"] and T.covered_nets(nets, x.to_bytes(4, "big")))
    ports = [0] if o.get("portless") else all_ports(o.get("ranges"))
    cnt = collections.Counter()
    if o["target"] == 0:
        k = o.get("net_k", 0)
        size = 1 << (32 - k)
        base = o.get("net_base", 0) & ~(size - 1) & 0xffffffff
        addrs = [a for a in range(base, base + size) if kept(a)]
        for p in ports:
            for a in addrs:
                cnt[key(a, p)] += 1
    elif o["target"] == 1:
        for a, p in o.get("pairs") or []:
            if kept(a):
                cnt[key(a, p)] += 1
    else:
        addrs = [a for a, _ in (o.get("pairs") or []) if kept(a)]
        for p in ports:
            for a in addrs:
                cnt[key(a, p)] += 1
    return cnt


def spec_on_impl(o):
    k = o["kind"]
    if k == "ports":
        rs = o.get("ranges") or []
        valid = len(rs) > 0 and all(s <= e for s, e in rs)
        if not valid:
            return None if o["err"] == 1 else "port range list %r is not refused as invalid" % rs[:5]
        if o["err"]:
            return "valid port ranges are refused: %s" % o.get("err_msg")
        if not o["complete"]:
            return "the port generator does not close its output"
        out = T.hb(o["out"])
        got = [out[i] * 256 + out[i + 1] for i in range(0, len(out), 2)]
        i = 0
        for s, e in rs:
            n = e - s + 1
            blk = got[i:i + n]
            if sorted(blk) != list(range(s, e + 1)):
                miss = sorted(set(range(s, e + 1)) - set(blk))
                extra = [p for p in blk if p < s or p > e]
                return "range %d-%d: the generator yields %d ports (missing %s, foreign %s, repeated %s)" % (
                    s, e, len(blk), miss[:5], extra[:5], [p for p, c in collections.Counter(blk).items() if c > 1][:5])
            i += n
        if i != len(got):
            return "%d ports after the last range" % (len(got) - i)
        return None
    if k == "nested":
        return None
    # chains
    if o["err"] or o.get("errors"):
        return "%s %s: a valid target specification yields the error '%s' (%s)" % (
            o["cmd"], o["class"], T.ERRNAME.get((o.get("errors") or [o["err"]])[0], "?"), o.get("err_msg"))
    if not o["complete"]:
        return "%s: the generator chain does not close its output" % o["class"]
    pb = T.hb(o.get("probes"))
    got = collections.Counter(pb[i:i + 6] for i in range(0, len(pb), 6))
    want = denote(o)
    if got != want:
        missing = want - got
        extra = got - want
        def show(c):
            return ["%s:%d x%d" % (T.dotted(int.from_bytes(k[:4], "big")), int.from_bytes(k[4:], "big"), n) for k, n in sorted(c.items())[:4]]
        return "%s (%s%s): %d probes where %d are due; missing %s, not due %s" % (
            o["class"], o.get("source") or "subnet /%s" % o.get("net_k"), ", %d port ranges" % len(o.get("ranges") or []),
            sum(got.values()), sum(want.values()), show(missing), show(extra))
    return None


def judge_e2e(o):
    if o.get("skipped"):
        return None
    if o.get("set"):
        # application scans against listeners: every target contacted, nothing else, never the decoy of the environment
        from checks import c02
        return c02.judge_e2e(o)
    fb = bytes.fromhex(o.get("frames") or "")
    got = collections.Counter(fb[i:i + 6] for i in range(0, len(fb), 6))
    want = collections.Counter(key(a, p) for a, p in o["want"])
    # C01 is about the probes: the exit status of a scan is not judged here (a non-zero status with every due probe on
    # the wire is no coverage violation)
    if got == want:
        return None

    def show(c):
        return ["%s:%d x%d" % (T.dotted(int.from_bytes(k[:4], "big")), int.from_bytes(k[4:], "big"), n) for k, n in sorted(c.items())[:4]]
    argv = " ".join(a if len(a) < 60 else a[:57] + "..." for a in o["argv"])
    if o.get("pin"):
        argv = "(pinned to one CPU: taskset -c N) " + argv
    extra = ""
    if o.get("inject"):
        extra = ", while the far end answers the first probes with SYN+ACK segments whose TCP header is cut to 16 bytes,"
    return "sx %s%s%s: %d probes on the wire where %d are due; missing %s, not due %s (exit status %d)" % (
        argv, " < address list" if o.get("stdin") else "", extra, sum(got.values()), sum(want.values()), show(want - got), show(got - want), o["rc"])


def run_e2e(ctx, n):
    """the unmodified sx binary in private network namespaces (root, ip netns); returns the observed rows"""
    sx = os.path.join(ctx.work, "sx")
    rc, out = verif.sh(["go", "build", "-o", sx, "."], env=verif.GOENV, cwd=verif.REPO, timeout=900)
    if rc != 0:
        ctx.broken.append(("correspondence: the sx binary does not build", out[-1500:]))
        return []
    ok, _ = ctx.harness_run("c01", ["-e2e", sx, "-out", "e2e.jsonl", "-seed", ctx.seed, "-ne2e", n], timeout=3000)
    if not ok:
        return []
    return ctx.read_jsonl(os.path.join(ctx.work, "e2e.jsonl"))


def describe(o):
    return "%s case seed=%d (%s)" % (o["kind"], o["case_seed"], o["class"])


def report(ctx, o, why):
    small = {k: v for k, v in o.items() if k not in ("out", "probes", "lines_enc", "cache_enc", "pairs", "draws")}
    if len(small.get("ranges") or []) > 12:
        small["ranges"] = small["ranges"][:12] + ["... %d ranges" % len(o["ranges"])]
    path = ctx.write_replay("%s-%d" % (o["kind"], o["case_seed"]), {
        "property": "C01", "what": why, "input": {"kind": o["kind"], "case_seed": o["case_seed"], "big": bool(o.get("big")), "forced": bool(o.get("forced")),
                                                  "frames": bool(o.get("frames")), "volume": o.get("volume", 0), "cmd": o.get("cmd")},
        "observed": small, "replay_cmd": "bin/check C01 --replay <this file>"})
    key_ = "%s:%s:%s:ranges=%s" % (o["kind"], o["class"], o.get("source", ""), "many" if len(o.get("ranges") or []) > 200 else
                                   ("none" if not o.get("ranges") else "few"))
    ctx.findings.append({"key": key_, "what": why, "replay": path})


def nontrivial(o):
    if o["kind"] == "ports":
        return len(o.get("out") or "") >= 8 or o["err"] != 0
    if o["kind"] == "nested":
        return len(o.get("out") or "") > 0
    return o["nprobes"] >= 2


def run(ctx):
    quick = ctx.tier == "quick"
    ctx.trusted += ["math/rand draws: universally quantified in the theorems, replayed from the seed for the port generator; in "
                    "composed chains several goroutines draw from the global source concurrently, so chains are compared as "
                    "multisets", "the engine start functions (afpacket, BPF, the chunk loop of startPortScanEngine) run only in the "
                    "end-to-end cases (sx binary in a network namespace, wire log); they enter the theorems through the translated "
                    "table Gen/TargetWiring.v", "pkg/scan/verif_export*.go, command/verif_export_c01.go (build tag verif)"]
    ctx.assumptions += ["a MAC is known for every destination (gateway MAC given or VPN mode) - otherwise C13 applies",
                        "live mode off (repeated passes: C19)"]
    gen_ok, model_ok, proof_ok = T.gen_and_prove(ctx, "Spec/C01.vo", "Properties/C01.v", more=["Properties/C01Wire.v"])
    rows = []
    if ctx.harness_build("c01"):
        args = ["-out", "cases.jsonl", "-seed", ctx.seed]
        args += ["-nports", 120, "-nnested", 300, "-nchain", 300, "-nframes", 9] if quick else \
                ["-nports", 3000, "-nnested", 10000, "-nchain", 5000, "-big", "-nframes", 300]
        ok, _ = ctx.harness_run("c01", args, timeout=3000)
        if ok:
            rows = ctx.read_jsonl(os.path.join(ctx.work, "cases.jsonl"))
    per_class = {}
    # the chunk loop replayed on the real tcp / udp request generator: a /20../21 x 201..203 single-port ranges, one
    # GenerateRequests per chunk on the same generator, each under a context cancelled when the chunk is done
    if ctx.harness_build("c01"):
        touched = any("ipGenerator" in n or "ipPortGenerator" in n for n in (getattr(ctx, "source_diff", []) or []))
        ok, _ = ctx.harness_run("c01", ["-out", "chunkgen.jsonl", "-seed", ctx.seed + 5, "-nports", 0, "-nnested", 0, "-nchain", 0,
                                        "-nchunkgen", 2 if quick else 12, "-chunkattempts", 12 if touched else 3], timeout=3000)
        for o in (ctx.read_jsonl(os.path.join(ctx.work, "chunkgen.jsonl")) if ok else []):
            ctx.count("chunkgen:" + o["class"], ("chunkgen", o["case_seed"]), nontrivial=o["total"] > 0,
                      sample={"kind": "chunkgen", "net": o["net"], "port_ranges": o["nranges"], "chunks": o["chunks"],
                              "requests": o["total"], "attempts": o["attempts"], "discrepancies": o["nbad"]})
            if o["nbad"] or o.get("err"):
                why = ("tcp/udp request generator, subnet %s x %d single-port ranges in %d chunks (one GenerateRequests per chunk on the same "
                       "generator, context cancelled after each chunk): %s (%d discrepancies in %d requests, attempt %d)" % (
                           o["net"], o["nranges"], o["chunks"], (o.get("bad") or [o.get("err")])[0], o["nbad"], o["total"], o["attempts"]))
                path = ctx.write_replay("chunkgen-%d" % o["case_seed"], {
                    "property": "C01", "what": why, "input": {"kind": "chunkgen", "case_seed": o["case_seed"], "attempts": 30},
                    "observed": o, "replay_cmd": "bin/check C01 --replay <this file>"})
                if not any(f["key"] == "chunkgen" for f in ctx.findings):
                    ctx.findings.append({"key": "chunkgen", "what": why, "replay": path})
    # the head of a pass over the WIDEST subnets (/0../3: the largest rows of the group table, arithmetic next to 2^32 and
    # products above 2^63) through the real ip generator; judged is what the property says about every prefix of a pass
    if ctx.harness_build("c01"):
        ok, _ = ctx.harness_run("c01", ["-out", "wideprefix.jsonl", "-seed", ctx.seed, "-wideprefix", 6 if quick else 48], timeout=1800)
        for o in (ctx.read_jsonl(os.path.join(ctx.work, "wideprefix.jsonl")) if ok else []):
            ctx.count("wideprefix:/%s" % o["subnet"].split("/")[1], ("wideprefix", o["id"]), nontrivial=o["got"] > 1000,
                      sample={"kind": "wideprefix", "subnet": o["subnet"], "math_rand_seed": o["rand_seed"], "addresses_checked": o["got"]})
            ctx.cov["traces_validated_against_impl"] += 1
            why = None
            if o["repeated_at"] >= 0:
                why = "%s is named twice (as address number %d and again as number %d of the pass)" % (o["repeated"], o["first_at"] + 1, o["repeated_at"] + 1)
            elif o["outside_at"] >= 0:
                why = "address number %d of the pass, %s, is not an address of the subnet" % (o["outside_at"] + 1, o["outside"])
            elif o["err"]:
                why = "the generator fails: " + o["err"]
            elif o["ended"]:
                why = "the pass ends after %d of the 2^%d addresses" % (o["got"], 32 - int(o["subnet"].split("/")[1]))
            if why:
                why = "ip generator on %s with math/rand seeded %d (one pass, the first %d addresses looked at): %s" % (
                    o["subnet"], o["rand_seed"], o["want"], why)
                path = ctx.write_replay("wideprefix-%s" % o["id"].replace(":", "-"), {
                    "property": "C01", "what": why, "input": {"kind": "wideprefix", "subnet": o["subnet"], "math_rand_seed": o["rand_seed"],
                                                              "harness": "c01 -wideprefix N -seed %d" % ctx.seed, "id": o["id"]},
                    "observed": o})
                if not any(f["key"] == "wideprefix" for f in ctx.findings):
                    ctx.findings.append({"key": "wideprefix", "what": why, "replay": path})
    for o in rows:
        cls = "%s:%s" % (o["kind"], o["class"])
        ctx.count(cls, (o["kind"], o["case_seed"]), nontrivial=nontrivial(o),
                  sample={"kind": o["kind"], "class": o["class"], "ranges": (o.get("ranges") or [])[:6], "nranges": len(o.get("ranges") or []),
                          "source": o.get("source"), "net": "%s/%s" % (T.dotted(o.get("net_base", 0)), o.get("net_k", 0)) if o.get("net_ip") else None,
                          "lines": o.get("nlines"), "filter": o.get("filter"), "cache": o.get("cache"), "probes": o.get("nprobes"),
                          "err": o["err"]})
        why = spec_on_impl(o)
        if why:
            per_class[cls] = per_class.get(cls, 0) + 1
            if per_class[cls] <= 2 and len(ctx.findings) < 10:
                report(ctx, o, why)
    # end to end: the real engine start functions (chunk loop included) with a wire log
    if rows or not ctx.broken:
        for idx, o in enumerate(run_e2e(ctx, 38 if quick else 110)):
            cls = "e2e:" + o["class"]
            if o.get("skipped"):
                ctx.skipped.append("e2e %s: %s" % (o["class"], o["skipped"][:200]))
                continue
            ctx.count(cls, ("e2e", idx), nontrivial=o["nwant"] >= 2,
                      sample={"kind": "e2e", "class": o["class"], "argv": " ".join(o["argv"])[:200], "due": o["nwant"], "on_wire": o["nframes"]})
            why = judge_e2e(o)
            if why:
                per_class[cls] = per_class.get(cls, 0) + 1
                small = {k: v for k, v in o.items() if k not in ("frames", "want")}
                path = ctx.write_replay("e2e-%d" % idx, {"property": "C01", "what": why,
                                                         "input": {"kind": "e2e", "index": idx, "seed": ctx.seed},
                                                         "observed": small, "replay_cmd": "bin/check C01 --replay <this file>"})
                ctx.findings.append({"key": "e2e:%s" % o["class"], "what": why, "replay": path})
    if per_class:
        ctx.info.append("failing inputs per class: %s" % json.dumps(per_class))
    if model_ok and rows:
        # the large frame-level cases are judged by the oracle above only (their probe lists are too long to load)
        rows = [o for o in rows if not (o.get("frames") and o["nprobes"] > 4000)]
        T.evaluate(ctx, rows, case_term, "From SX Require Import Base.Bytes Model.IPNet Model.Targets Spec.C13 Spec.C01.",
                   16 if quick else 64, describe, CODES)
    # the probes of a pass through the REAL packet engine (N workers, merger, sender with buffer pool): every frame built
    # is written once, intact (the engine side of C01Wire.v)
    from checks import c07
    if ctx.harness_build("c07"):
        for o in c07.run_harness(ctx, 10 if quick else 100, ctx.seed + 29, name="engine.jsonl", maxreq=600):
            reqs = o["reqs"] or []
            ctx.count("engine:" + o["class"], ("engine", o["n"], o["cap"], json.dumps(reqs)), nontrivial=len(reqs) >= 5,
                      sample={"workers": o["n"], "requests": len(reqs)})
            why = c07.spec_on_impl(o)
            if why and not any(f["key"].startswith("engine:") for f in ctx.findings):
                why = "packet engine, %d workers, %d requests: %s" % (o["n"], len(reqs), why)
                path = ctx.write_replay("engine-case%d" % o["case"], {"property": "C01", "what": why, "input": {
                    "n": o["n"], "cap": o["cap"], "reqs": reqs, "harness": "c07 -seed %d -n %d -maxreq 600 -only %d" % (
                        ctx.seed + 29, 10 if quick else 100, o["case"])}})
                ctx.findings.append({"key": "engine:" + why.split(":")[1][:40], "what": why, "replay": path})
    if ctx.broken and not ctx.findings and any("PacketFiller" in n for n in getattr(ctx, "source_diff", [])):
        # a packet filler changed: the commands hand ONE filler to all packet workers, so look for a frame that does not
        # carry its own request's destination when the filler is shared by 8 goroutines (driver and oracle of C05)
        from checks import c05
        if ctx.harness_build("c05"):
            for o in c05.run_harness(ctx, "filler_concurrent.jsonl", ["-seed", ctx.seed + 31, "-concurrent", 10 * c05.CONC_QUICK]):
                why = c05.spec_on_impl(o)
                if why:
                    why = "one %s filler shared by the packet workers (8 goroutines): %s" % (o.get("kind"), why)
                    path = ctx.write_replay("filler-%s" % o.get("kind"), {"property": "C01", "what": why, "case": c05.describe(o),
                                                                         "input": {k: o[k] for k in c05.INPUT_KEYS if k in o}})
                    ctx.findings.append({"key": "filler:" + str(o.get("kind")), "what": why, "replay": path})
                    break
    return ctx.finish(rule=RULE)


def replay(ctx, path):
    r = json.load(open(path))
    i = r.get("input")
    if not i:
        print(json.dumps(r, indent=1))
        return 1
    if not ctx.harness_build("c01"):
        return 1
    if i["kind"] == "wideprefix":
        seed, idx = i["id"].split(":")[1:3]
        runseed = (int(seed) - 17 - int(idx) * 7919) // 1000003
        ctx.harness_run("c01", ["-out", "one.jsonl", "-seed", runseed, "-wideprefix", int(idx) + 1], timeout=900)
        rows = [o for o in ctx.read_jsonl(os.path.join(ctx.work, "one.jsonl")) if o["id"] == i["id"]]
        bad = [o for o in rows if o["repeated_at"] >= 0 or o["outside_at"] >= 0 or o["err"] or o["ended"]]
        print(json.dumps(rows[-1] if rows else {}, indent=1))
        print("replay: the property %s on this input" % ("FAILS" if bad or not rows else "holds"))
        return 1 if bad or not rows else 0
    if i["kind"] == "e2e":
        ctx.seed = i["seed"]
        rows = run_e2e(ctx, i["index"] + 1)
        if len(rows) <= i["index"]:
            print("replay e2e: the run could not be repeated")
            return 1
        o = rows[i["index"]]
        why = judge_e2e(o)
        print("replay e2e #%d (%s): %s" % (i["index"], o["class"], why or o.get("skipped") or "property holds on this input"))
        return 1 if why else 0
    if i["kind"] == "chunkgen":
        ctx.harness_run("c01", ["-out", "one.jsonl", "-replay", "chunkgen:%d:%d" % (i["case_seed"], i.get("attempts", 30))], timeout=900)
        o = ctx.read_jsonl(os.path.join(ctx.work, "one.jsonl"))[0]
        print("replay chunk loop on %s x %d port ranges: %s" % (o["net"], o["nranges"], (o.get("bad") or ["property holds on this input (%d attempts)" % o["attempts"]])[0]))
        return 1 if o["nbad"] else 0
    arg = "%s:%d" % (i["kind"], i["case_seed"]) + (":big" if i.get("big") else "") + (":filter" if i.get("forced") else "")
    if i.get("frames"):
        arg = "frames:%d:%d:%s" % (i["case_seed"], i.get("volume", 2000), i.get("cmd", "udp"))
    ctx.harness_run("c01", ["-out", "one.jsonl", "-replay", arg], timeout=600)
    o = ctx.read_jsonl(os.path.join(ctx.work, "one.jsonl"))[0]
    why = spec_on_impl(o)
    print("replay %s: %s" % (arg, why or "property holds on this input"))
    print(json.dumps({k: v for k, v in o.items() if k not in ("out", "probes", "lines_enc", "cache_enc", "pairs", "draws")})[:1500])
    return 1 if why else 0


MANIFEST = {
    "technique": "Coq proof (C04 for every walk; permutation algebra over the nested generator, the stages and the chunk loop; "
                 "generated command wiring; stdin recorder invariant) + differential correspondence",
    "level_text": "Theorem C01_all_commands: for every command of the generated wiring table, every option setting, every valid "
                  "IPv4 specification (nets /0../32, any valid port ranges incl. >200, well-formed files from file or stdin, any "
                  "exclusion list) and all random draws, the probes of one pass are as a multiset exactly what the specification "
                  "denotes; plus the same per chain shape, the chunking lemma and the stdin-replay invariant. C01_on_the_wire / "
                  "C01_scanned (Properties/C01Wire.v) compose this with the packet pipeline of C07 and the generic engine of C08: "
                  "for every worker count and EVERY schedule of every engine run (one per chunk) the frames handed to the wire / "
                  "the targets handed to Scan in complete uncancelled runs are as a multiset what the specification denotes. The executable model "
                  "is compared with the real port generator (exact), the real nested generator (exact) and the real chains of "
                  "tcp/udp/icmp/arp and of the application scans' GenericEngine (multisets).",
    "level_note": "Trusted: Coq kernel + VM, tools/gen transcription of the chain each command builds and of the chunk loop, "
                  "library parsers (line outcomes by construction), cidranger/arp.Cache as maps, harness. The engine start "
                  "functions (afpacket) are not executed in-process. No axioms.",
    "design_ref": "DESIGN.md section 5 (C01)",
}
