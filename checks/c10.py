"""C10 -- Elasticsearch/Docker probes: reported iff JSON info was served; time-bounded."""
import json
import os
import re

import verif

RULE = ("scripted loopback HTTP and HTTPS peers (raw TCP, run-time self-signed certificate) against the real "
        "elastic.Scanner.Scan and docker.Scanner.Scan with 150-230 ms timeouts: every body class (object, object+trailing "
        "data, ill-typed object, 2 MB object, null, array, string, number, true, empty, truncated, truncated by connection "
        "close, not JSON, endless, stalling mid-body) and every transport fault / status (close, reset, stall, late, 201, "
        "400, 401, 404, 500, 503) at every request of a probe (elastic: /, /_aliases; docker: HEAD /_ping, GET /_ping, "
        "/info, /version), refused / never-accepting targets, scheme mismatch, timeouts <= 0, cancellation before / during "
        "each request / after the end, plus seeded random combinations; also the empty object ({} / whitespace / 401 {}) for "
        "elastic, peers that honour Accept-Encoding: gzip, and (thorough / failing-input search) answers later than the "
        "scanners' built-in default timeouts inside a larger configured one; an overlapping-scans stage: ONE docker and ONE "
        "elastic scanner each shared by 20 goroutines against 24 peers per kind (good APIs serving their own names, half of "
        "them gzip-capable, non-JSON, 404, slow first responses) with DOCKER_HOST / DOCKER_API_VERSION in the environment "
        "naming a decoy daemon no probe is aimed at, 3000 probes per kind each judged on its own (thorough: 60000 and a "
        "-race build); end-to-end runs of the sx binary; non-trivial = the peer accepted connections; "
        "distinct by (class, scheme, slots)")

SLACK_MS = 80
CODES = {1: "outcome differs from the model", 2: "the record's scheme/address/port differ from the probed target",
         3: "the peer saw another request sequence than the model predicts",
         4: "Scan took longer than the model's logical duration + slack"}
OBS = {0: "report(info,secondary)", 1: "report(info)", 2: "report(NO info,secondary)", 3: "report(NO info)", 4: "error",
       11: "HANG", 96: "nil-result-without-error", 97: "result-and-error", 98: "harness-error"}
BODY = {"empty_object": "BObject", "empty_object_ws": "BObject", "object_version_number": "BObject",
        "object_version_nested": "BObject", "object_unrelated": "BObject", "object_secured": "BObject", "object": "BObject", "object_trailing": "BObjectTrailing", "object_ill_typed": "BObjectIllTyped",
        "huge_object": "BObject", "null": "BNull", "array": "BNonObject", "string": "BNonObject", "number": "BNonObject",
        "true": "BNonObject", "empty": "BEmpty", "truncated": "BTruncated", "truncated_conn": "BTruncated",
        "garbage": "BGarbage", "endless": "BEndless", "stall_mid": "BStall", "": "BEmpty"}
SLOTS = {"elastic": ["info", "indexes"], "docker": ["ping_head", "ping_get", "info", "version"]}
SLOT_CODE = {"info": 0, "indexes": 1, "ping_head": 2, "ping_get": 3, "version": 4}


def slack_of(o):
    # end-to-end runs include process start-up and the exit delay
    return SLACK_MS + (600 if o.get("e2e") else 0)


LOW_JITTER_MS = 10     # a run whose 5 ms sleeps never overshot by more than this is a quiet window: its durations count
EXTRA_SLACK = [0]      # set by settle() to ask "does the duration exceed the model by MUCH more than the slack?"


def load_ms(o):
    """how starved of CPU the harness process was while the case ran, in milliseconds of scheduling delay: the larger of
    jitter_ms (largest overshoot of a goroutine sleeping 5 ms: wake-up latency) and 20 ms per unit of cpu_slowdown - 1
    (wall / CPU time of a thread burning 2 ms of CPU: the scheduler serves sleepers promptly even when CPU-bound work --
    TLS, JSON, 2 MB bodies -- crawls, so wake-up latency alone underestimates starvation).  ~0-3 on a quiet machine."""
    return max(o.get("jitter_ms") or 0, min(200.0, 20.0 * max(0.0, (o.get("cpu_slowdown") or 1.0) - 1.0)))


def jitter_slack(o):
    """the harness measures, while each case runs, by how much a goroutine sleeping 5 ms overshoots (jitter_ms); a probe
    makes several requests with a handful of wake-ups each, so the duration comparison with the MODEL grants four of them
    on top of the fixed slack -- nothing on a quiet machine, the starvation delay on a loaded one.  The property's own
    bound keeps its fixed slack."""
    return int(4 * min(o.get("jitter_ms") or 0, 300))


def model_slack_of(o):
    """slack for the comparison with the model's logical duration: the model has no notion of transfer / decoding time,
    so a 2 MB body gets an allowance, and a busy machine a little more than the property's own bound gets"""
    huge = sum(1 for v in o["slots"].values() if v.get("body") == "huge_object")
    return slack_of(o) + 40 + 200 * huge + jitter_slack(o) + EXTRA_SLACK[0]


def mismatch(o):
    return (o["scheme"] == "https") != bool(o["server_tls"])


def objectish(kind, slot, r):
    """does this scripted response carry a body that decodes as a JSON object for this call?"""
    if r["kind"] != "resp":
        return False
    ok = {"object", "object_trailing", "huge_object"}
    if kind == "elastic":
        ok |= {"object_ill_typed", "empty_object", "empty_object_ws", "object_version_number", "object_version_nested",
               "object_unrelated", "object_secured"}
        return r["body"] in ok
    return r["body"] in ok and 200 <= r["status"] < 400


def expected_host(o):
    return ("%s:%d" if o["kind"] == "elastic" else "tcp://%s:%d") % (o["ip"], o["port"])


def answers(r):
    """the peer does answer this request (possibly late), without stalling mid-body"""
    return r["kind"] in ("resp", "close", "rst") and r.get("body") not in ("stall_mid",) and \
        not (r.get("body") == "endless" and r.get("status", 200) >= 400)


def quick(o, r):
    return answers(r) and r["delay"] <= 0.3 * o["timeout"]


def comfortable(o):
    """primary request(s) answered with an object well inside the configured timeout and nothing interferes: either every
    request of the primary path within 0.3 T, or (slow answers, long timeouts) the whole path at least 1.5 s before T"""
    if o["mode"] != "accept" or mismatch(o) or o["timeout"] < 100 or (o["cancel"] != -1 and o["cancel"] < 800):
        return False
    s = o["slots"]
    if not objectish(o["kind"], "info", s["info"]):
        return False
    path = [s["info"]]
    if o["kind"] == "docker":
        h = s["ping_head"]
        path.append(h)
        if not (h["kind"] == "resp" and h["status"] in (200, 500)):
            path.append(s["ping_get"])
    if not all(answers(r) for r in path):
        return False
    if all(quick(o, r) for r in path):
        return True
    total = sum(r["delay"] for r in path)
    return total <= o["timeout"] - 1500 if o["kind"] == "docker" else all(r["delay"] <= o["timeout"] - 1500 for r in path)


def time_bound(o):
    if 0 <= o["cancel"] < 250:
        return o["cancel"]
    t = max(0, o["timeout"])
    return 2 * t if o["kind"] == "elastic" else t


def finding_key(o):
    r = o["slots"]["info"]
    what = r["body"] if r["kind"] == "resp" else r["kind"]
    return "%s:info=%s:%s" % (o["kind"], what if o["mode"] == "accept" and not mismatch(o) else o["mode"],
                              "reported" if o["obs"] < 4 else OBS.get(o["obs"], o["obs"]))


def spec_on_impl(o):
    obs = o["obs"]
    if obs == 98:
        return None
    if obs in (96, 97):
        return "Scan returned %s" % OBS[obs]
    if obs == 11:
        return "Scan did not return (%s)" % o["err"]
    kind = o["kind"]
    if o.get("print_panic"):
        # startScanEngine's result-logging goroutine has no recover: in reality this kills the whole scan process, the
        # endpoint (which DID serve JSON info) is not reported and neither is any target after it
        return "the record of this endpoint cannot be reported: %s -- panic: %s" % tuple(o["print_panic"].split(": ", 1))
    if obs < 4:
        if o["mode"] != "accept" or mismatch(o):
            return "an endpoint that cannot be talked to is reported"
        r = o["slots"]["info"]
        if not objectish(kind, "info", r):
            desc = ("status %d, body %s" % (r["status"], r["body"])) if r["kind"] == "resp" else r["kind"]
            return "reported although the info request was answered with %s, not with a JSON object" % desc
        rec = o["rec"] or {}
        if rec.get("info_nil"):
            return "the record carries no info"
        if rec.get("proto") != o["scheme"] or rec.get("host") != expected_host(o) or rec.get("scan") != kind:
            return "the record says %s %s://%s but %s://%s was probed" % (
                rec.get("scan"), rec.get("proto"), rec.get("host"), o["scheme"], expected_host(o))
        sec = "indexes" if kind == "elastic" else "version"
        if rec.get("secondary") and not objectish(kind, sec, o["slots"][sec]):
            return "the record carries %s although that request did not yield an object" % sec
    elif comfortable(o):
        return "not reported (%s) although the info request was answered in time with a JSON object" % o["err"][:120]
    b = time_bound(o)
    if o["dur_ms"] > b + slack_of(o):
        return "%s took %.0f ms, more than the bound of %d ms (+%d ms slack)" % (
            "sx %s -t %dms" % (kind, o["timeout"]) if o.get("e2e") else "Scan", o["dur_ms"], b, slack_of(o))
    return None


# ---------------------------------------------------------------- model side
def resp_term(o, slot):
    z = verif.coq_z
    if o["mode"] == "refuse":
        return "After 0 (EConnErr CRefused)"
    if o["mode"] == "blackhole":
        return "Never"
    if mismatch(o):
        return "After 0 (EConnErr COther)"
    r = o["slots"][slot]
    if r["kind"] in ("close", "rst"):
        return "After %s (EConnErr COther)" % z(r["delay"])
    if r["kind"] == "stall":
        return "Never"
    return "After %s (EResp %s %s)" % (z(r["delay"]), z(r["status"]), BODY[r.get("body", "")])


def ip_bytes(s):
    try:
        parts = [int(x) for x in s.split(".")]
        if len(parts) == 4 and all(0 <= p < 256 for p in parts):
            return parts
    except ValueError:
        pass
    return []


def parse_host(kind, host):
    h = host[len("tcp://"):] if kind == "docker" and host.startswith("tcp://") else host
    ip, _, port = h.rpartition(":")
    try:
        return ip_bytes(ip), int(port)
    except ValueError:
        return [], -1


def req_slot(kind, line):
    method, _, path = line.partition(" ")
    if path.endswith("/_ping"):
        return "ping_head" if method == "HEAD" else "ping_get"
    if kind == "docker":
        return "info" if path.endswith("/info") else "version" if path.endswith("/version") else None
    return {"/": "info", "/_aliases": "indexes"}.get(path) if method == "GET" else None


def case_term(o):
    z = verif.coq_z
    kind = o["kind"]
    if kind == "elastic":
        script = "PElastic {| e_info := %s; e_indexes := %s |}" % (resp_term(o, "info"), resp_term(o, "indexes"))
    else:
        script = "PDocker {| d_ping_head := %s; d_ping_get := %s; d_info := %s; d_version := %s |}" % tuple(
            resp_term(o, s) for s in SLOTS["docker"])
    target = "Target %s %s %s" % (verif.coq_bool(o["scheme"] == "https"), verif.coq_bytes(ip_bytes(o["ip"])), z(o["port"]))
    reqs = "None"
    if o["mode"] == "accept" and not mismatch(o):
        slots = [req_slot(kind, l) for l in o["reqs"] or []]
        reqs = "Some %s" % verif.coq_list([z(SLOT_CODE[s]) if s else "99" for s in slots])
    rec = "None"
    if o["rec"]:
        ip, port = parse_host(kind, o["rec"]["host"])
        rec = "Some (Target %s %s %s)" % (verif.coq_bool(o["rec"]["proto"] == "https"), verif.coq_bytes(ip), z(port))
    return ("{| c_timeout := %s; c_cancel := %s; c_target := %s; c_script := %s; c_obs := %s; c_dur := %s; "
            "c_slack := %d; c_reqs := %s; c_rec := %s |}") % (
        z(o["timeout"]), "None" if o["cancel"] < 0 else "Some %s" % z(o["cancel"]), target, script, z(o["obs"]),
        z(int(o["dur_ms"])), model_slack_of(o), reqs, rec)


def case_file(rows):
    body = ["From Coq Require Import ZArith List.", "From SX Require Import Model.Socks Model.HttpProbe Spec.C10.",
            "Import ListNotations.", "Open Scope Z_scope.", "Definition cases : list case := ["]
    body.append(";\n".join(case_term(o) for o in rows))
    body.append("].")
    body.append("Definition M := Eval vm_compute in check_all 0 cases.")
    body.append("Definition L := Eval vm_compute in length cases.")
    body.append("Print M. Print L.")
    return "\n".join(body)


def parse_eval(ctx, out, nrows):
    m = ctx.parse_result(out, "M")
    n_model = int(ctx.parse_result(out, "L"))
    if n_model != nrows:
        raise verif.Broken("case count differs between harness and model (%d vs %d)" % (nrows, n_model))
    res = []
    if m.strip() not in ("[]", "nil"):
        for idx, codes in re.findall(r"\((\d+), \[([^\]]*)\]\)", m):
            res.append((int(idx), [int(c.strip().strip("()")) for c in codes.split(";") if c.strip()]))
        if not res:
            raise verif.Broken("cannot parse mismatch list", m[:500])
    return res


def evaluate(ctx, rows, tag, nshards):
    size = max(1, (len(rows) + nshards - 1) // nshards)
    parts = [rows[i:i + size] for i in range(0, len(rows), size)]
    outs = ctx.coq_eval_many([("%s_%d" % (tag, i), case_file(p)) for i, p in enumerate(parts)])
    bad = {}
    for k, (part, out) in enumerate(zip(parts, outs)):
        for idx, codes in parse_eval(ctx, out, len(part)):
            bad[k * size + idx] = codes
    return bad


def rerun(ctx, rows, tag, par=6):
    path = os.path.join(ctx.work, "%s_in.json" % tag)
    with open(path, "w") as f:
        json.dump(rows, f)
    ok, _ = ctx.harness_run("c10", ["-out", "%s.jsonl" % tag, "-replay", path, "-par", par], timeout=600)
    if not ok:
        return None
    return ctx.read_jsonl(os.path.join(ctx.work, "%s.jsonl" % tag))


BODY_TEXT = {"object_version_number": '{"version":5,"cluster_name":["a","b"]}',
             "object_version_nested": '{"version":{"number":7},"cluster_name":null}', "object_unrelated": '{"ok":true}',
             "object_ill_typed": '{"cluster_name":5,"version":"x"}', "empty_object": "{}", "empty_object_ws": " { \\n } \\n",
             "object_secured": '{"error":{...security_exception...},"status":401}', "null": "null"}


def verif_body(o):
    r = o["slots"].get("info", {})
    return BODY_TEXT.get(r.get("body", ""), r.get("body", ""))


def report(ctx, o, why):
    key = finding_key(o)
    if len(ctx.findings) >= 8 or any(f["key"] == key for f in ctx.findings):
        ctx.suppressed = getattr(ctx, "suppressed", 0) + 1
        return
    path = ctx.write_replay("case%d" % o["id"], {
        "property": "C10", "what": why, "key": key,
        "input": dict({k: o[k] for k in ("id", "class", "kind", "scheme", "server_tls", "timeout", "cancel", "mode", "slots",
                                         "ip")}, e2e=bool(o.get("e2e")), plain_cli=bool(o.get("plain_cli")),
                      info_body=(verif_body(o))),
        "observed": {"outcome": OBS.get(o["obs"], o["obs"]), "err": o["err"], "dur_ms": o["dur_ms"], "reqs": o["reqs"],
                     "rec": o["rec"], "port": o["port"], "plain_output": o.get("plain", ""),
                     "print_panic": o.get("print_panic", "")},
        "replay_cmd": "bin/check C10 --replay <this file>"})
    ctx.findings.append({"key": key, "what": why, "replay": path})


def stretch(o, k):
    """the same case with its whole timing multiplied by k"""
    c = json.loads(json.dumps(o))
    base = {"timeout": o["timeout"], "cancel": o["cancel"],
            "delays": {n: v.get("delay", 0) for n, v in o["slots"].items()}, "class": o["class"]}
    c["timeout"] = base["timeout"] * k
    c["cancel"] = base["cancel"] * k if base["cancel"] > 0 else base["cancel"]
    for n, v in c["slots"].items():
        v["delay"] = base["delays"].get(n, 0) * k
    c["class"] = "%s [timing x%d]" % (base["class"], k)
    return c


def prop_excess(o):
    """by how many ms the observed duration exceeds the property's own bound including its fixed slack (<= 0: it does not)"""
    return o["dur_ms"] - (time_bound(o) + slack_of(o))


def time_only(o):
    """the property fails on this observation only because of a measured duration (never for a HANG)"""
    why = spec_on_impl(o)
    return bool(why) and o["obs"] != 11 and (" took " in why)


def settle(ctx, rows, tag, have_model):
    import time
    bad = evaluate(ctx, rows, tag, 8 if len(rows) < 3000 else 48) if have_model else {}

    def redo(idxs, name, par):
        again = rerun(ctx, [rows[i] for i in idxs], name, par)
        if again is None or len(again) != len(idxs):
            return False
        for i, o in zip(idxs, again):
            rows[i] = o
        sub = evaluate(ctx, again, name, 4) if have_model else {}
        for k, i in enumerate(idxs):
            if k in sub:
                bad[i] = sub[k]
            else:
                bad.pop(i, None)
        return True

    for attempt in range(2):
        idxs = sorted(set(bad) | {i for i, o in enumerate(rows) if spec_on_impl(o)})
        if not idxs or len(idxs) > 60:
            break
        if not redo(idxs, "%s_retry%d" % (tag, attempt), 6):
            break
    # Starvation can also change an OUTCOME: with 150-230 ms timeouts a starved probe (4 requests, TLS, a 2 MB body) simply
    # does not finish in time and ends with a deadline error.  Cases that still disagree, ended with a deadline-type error
    # and ran while the scheduling jitter was high are run again with their whole timing (timeout, delays, cancellation)
    # stretched x4, then x8: the model is invariant under scaling of time, the starvation delay is not.  The stretched
    # observation replaces the original one (class suffix " [timing xK]") and is judged like any other.
    # Stretching may only excuse a case when (a) starvation was actually MEASURED while that very case ran, (b) what is
    # wrong is the OUTCOME (a deadline error / a missing secondary part where the model has none) -- a duration that
    # exceeds a bound is never stretched away, the duration stage below deals with it -- and (c) the timeout is short.
    def starved(i):
        o = rows[i]
        if load_ms(o) <= LOW_JITTER_MS or o["timeout"] > 1000:
            return False
        why = spec_on_impl(o)
        if not ((1 in bad.get(i, [])) or (bool(why) and not time_only(o))):
            return False
        if o["obs"] == 4:     # an error where the model expects a record (or another request sequence): a deadline?
            return re.search(r"deadline exceeded|Client\.Timeout|i/o timeout|Cannot connect to the Docker daemon|"
                             r"no record printed", o.get("err") or "") is not None
        # a record without the secondary part where the model has it: the (ignored) secondary error is not visible, the
        # usual cause under starvation is its deadline
        return o["obs"] in (1, 3) and 1 in bad.get(i, [])

    stretch_base = {}
    for k in (4, 8):
        sus = [i for i in sorted(set(bad) | {i for i, o in enumerate(rows) if spec_on_impl(o)}) if starved(i)]
        if not sus or len(sus) > 40:
            break
        time.sleep(1.0)
        saved = {i: rows[i] for i in sus}
        for i in sus:
            rows[i] = stretch(stretch_base.setdefault(i, saved[i]), k)
        if not redo(sus, "%s_stretch%d" % (tag, k), 2):
            for i in sus:
                rows[i] = saved[i]
            break
        ctx.info.append("%d cases that ended with a deadline error under CPU starvation were run again with timing x%d" % (
            len(sus), k))
    # What is left and is about a DURATION only (outcome, record, request sequence all agree; or only the property's time
    # bound is exceeded): under CPU starvation such a measurement says nothing.  Re-run these few cases up to three more
    # times, two at a time, pausing while the measured scheduling jitter is high; a mismatch counts only if it persists in a
    # quiet window (jitter <= LOW_JITTER_MS) or exceeds the allowance by a wide margin (250 ms + 12 x jitter) every time.
    def duration_only(i):
        o = rows[i]
        codes = bad.get(i, [])
        return o["obs"] < 96 and ((codes == [4] and not spec_on_impl(o)) or (codes in ([], [4]) and time_only(o)))

    pending = [i for i in sorted(set(bad) | {i for i, o in enumerate(rows) if spec_on_impl(o)}) if duration_only(i)]
    confirmed, wide = set(), {i: 0 for i in pending}
    if 0 < len(pending) <= 40:
        for rnd in range(3):
            if not pending:
                break
            jit = max(load_ms(rows[i]) for i in pending)
            if jit > LOW_JITTER_MS:
                time.sleep(min(4.0, 1.0 + jit / 50.0))
            if not redo(pending, "%s_quiet%d" % (tag, rnd), 2):
                break
            still = [i for i in pending if bad.get(i) or spec_on_impl(rows[i])]
            for i in still:
                if not duration_only(i) or load_ms(rows[i]) <= LOW_JITTER_MS:
                    confirmed.add(i)
                elif time_only(rows[i]) and prop_excess(rows[i]) > 4 * load_ms(rows[i]):
                    confirmed.add(i)           # the property's own bound is exceeded by more than the measured load explains
            rest = [i for i in still if i not in confirmed]
            if rest:
                sub = {}
                if have_model:
                    EXTRA_SLACK[0] = 250 + int(8 * max(load_ms(rows[i]) for i in rest))
                    try:
                        sub = evaluate(ctx, [rows[i] for i in rest], "%s_wide%d" % (tag, rnd), 2)
                    finally:
                        EXTRA_SLACK[0] = 0
                for k, i in enumerate(rest):
                    o = rows[i]
                    over_bound = prop_excess(o) > 250 + 12 * load_ms(o)
                    if 4 in sub.get(k, []) or over_bound:
                        wide[i] += 1
            pending = [i for i in still if i not in confirmed]
        for i in pending:
            if wide.get(i, 0) >= 3:
                confirmed.add(i)
        dropped = [i for i in pending if i not in confirmed]
        for i in dropped:
            bad.pop(i, None)
            rows[i]["inconclusive"] = True
        if dropped:
            ctx.info.append("%d duration comparisons were inconclusive because of CPU starvation (scheduling jitter up to "
                            "%.0f ms in every re-run) and are not counted: cases %s" % (
                                len(dropped), max(load_ms(rows[i]) for i in dropped),
                                [rows[i]["id"] for i in dropped][:10]))
    return rows, bad


def overlap_stage(ctx, probes, ms, tag="overlap", goroutines=20):
    """Overlapping-scans stage: ONE real docker.Scanner and ONE real elastic.Scanner (built like the commands build them),
    each shared by 20 goroutines as scan.GenericEngine shares a scanner between its workers, against 24 persistent loopback
    peers per kind: well-behaved APIs each serving its OWN name, 200 + non-JSON, 404 text/plain, and slow variants whose
    first response is delayed 25-60 ms so that probes of different targets overlap.  Every probe is judged on its own by
    the property: reported iff ITS peer served JSON info; record host = ITS address; info / version / index list = ITS
    peer's.  Returns the two rows (docker, elastic)."""
    ok, _ = ctx.harness_run("c10", ["-out", "%s.jsonl" % tag, "-overlap", probes, "-overlap-ms", ms, "-overlap-g", goroutines,
                                    "-seed", ctx.seed], timeout=900)
    if not ok:
        return None
    rows = ctx.read_jsonl(os.path.join(ctx.work, "%s.jsonl" % tag))
    for r in rows:
        r["bad"] = r.get("bad") or []
    return rows


def judge_overlap(r):
    if r and r["bad"]:
        # prefer a misjudged probe whose record names the neighbour whose data it carries: a concrete pair of targets
        b = next((x for x in r["bad"] if x["data_belongs_to"]), r["bad"][0])
        return ("with one %s scanner shared by %d goroutines (as the scan engine shares it between its workers) the probe of "
                "%s (%s peer) is %s%s (%d misjudged probes among %d)" % (
                    r["kind"], r["goroutines"], b["target"], b["target_behaviour"], b["what"],
                    "; the record carries the data of %s" % b["data_belongs_to"] if b["data_belongs_to"] else "",
                    len(r["bad"]), r["judged"]))
    return None


def run_overlap(ctx, probes, ms, tag="overlap"):
    rows = overlap_stage(ctx, probes, ms, tag)
    for r in rows or []:
        ctx.count(r["class"], (r["class"], tag), nontrivial=True,
                  sample={"class": r["class"], "goroutines": r["goroutines"], "peers": len(r["peers"]), "probes": r["probes"],
                          "judged": r["judged"], "deadline_errors": r["deadline_errors"], "reported": r["reported"],
                          "misjudged": len(r["bad"]), "elapsed_ms": r["elapsed_ms"]})
        ctx.cov["evaluations"] += r["judged"] - 1
        if r["judged"] < 200 and not r["bad"]:
            ctx.broken.append(("correspondence: the overlapping-scans stage judged only %d %s probes (%d deadline errors)" % (
                r["judged"], r["kind"], r["deadline_errors"]), ""))
        why = judge_overlap(r)
        key = "overlap:%s:misreport" % r["kind"]
        if why and not any(f["key"] == key for f in ctx.findings):
            path = ctx.write_replay("overlap-%s" % r["kind"], {
                "property": "C10", "what": why, "key": key,
                "input": {"overlap": True, "kind": r["kind"], "goroutines": r["goroutines"], "timeout_ms": r["timeout_ms"],
                          "seed": r["seed"], "probes": max(3000, r["probes"]), "environment": r.get("environment", ""),
                          "peers": [{"target": ("tcp://%s:%d" if r["kind"] == "docker" else "%s:%d") % (p["ip"], p["port"]),
                                     "behaviour": p["behaviour"], "slow_first_response_ms": p["slow_ms"], "serves_name": p["tag"],
                                     "honours_accept_encoding_gzip": p.get("gzip", False)}
                                    for p in r["peers"]],
                          "note": "peers listen on fresh ports at every run; the replay rebuilds the same mix"},
                "observed": {"probes": r["probes"], "judged": r["judged"], "misjudged": r["bad"]},
                "replay_cmd": "bin/check C10 --replay <this file>"})
            ctx.findings.append({"key": key, "what": why, "replay": path})
    return rows


# No report is tolerated.  (Before the fix "docker scan ignores the proxy environment" every Scan let moby reconfigure the
# scanner's SHARED http.Transport -- sockets.ConfigureTransport re-assigning tr.Proxy / tr.Dial -- which the race detector
# reported; since the fix every probe works on its own clone of the transport.)
BENIGN_RACES = []


def race_overlap(ctx):
    """thorough: the overlapping-scans stage under the Go race detector; every report is a finding"""
    if not ctx.harness_build("c10", race=True):
        return
    exe = os.path.join(verif.HBIN, "c10-race")
    args = ["-out", "overlap_race.jsonl", "-overlap", "1500", "-overlap-ms", "20000", "-seed", str(ctx.seed)]
    try:
        rc, out = verif.sh([exe] + args, timeout=1800, env=dict(verif.GOENV, GORACE="halt_on_error=0 exitcode=0"),
                           cwd=ctx.work)
    except Exception as e:  # timeout
        ctx.info.append("race-detector run of the overlapping-scans stage did not finish: %s" % e)
        return
    ctx.checker_cmds.append("harness c10-race " + " ".join(args))
    reports = [b for b in out.split("==================") if "WARNING: DATA RACE" in b]
    benign = [b for b in reports if any(k in b for k in BENIGN_RACES)]
    other = [b for b in reports if b not in benign]
    ctx.info.append("race-detector run of the overlapping-scans stage: %d reports" % len(reports))
    if other:
        path = ctx.write_replay("race-c10", {"property": "C10", "what": "data race reported by the Go race detector when one "
                                             "scanner is shared by 20 goroutines", "report": other[0][:4000],
                                             "cmd": "harness c10-race " + " ".join(args)})
        ctx.findings.append({"key": "race:c10", "what": "data race in Scanner.Scan shared by many goroutines", "replay": path})
    elif rc != 0:
        ctx.info.append("race run of c10 exited with %d" % rc)


def new_findings(ctx):
    """findings that are not recorded known findings (those are always present and must not stop the search)"""
    known = verif.load_known()
    return [f for f in ctx.findings if verif.match_known(known, ctx.pid, f) is None]


def slow_search(ctx):
    ok, _ = ctx.harness_run("c10", ["-out", "slow.jsonl", "-seed", ctx.seed, "-slow-only"], timeout=600)
    if not ok:
        return
    for o in ctx.read_jsonl(os.path.join(ctx.work, "slow.jsonl")):
        ctx.count(o["class"], shape(o), nontrivial=True)
        why = spec_on_impl(o)
        if why:
            report(ctx, o, why)


def gen_and_build(ctx):
    """Translator + Coq build.  coq/Gen is shared by all checks: a check of another property running at the same time
    against another tree may rewrite Gen/ProbeConsts.v between our translation and our build; detect that (content
    compared with what our translation produced) and repeat."""
    gen_file = os.path.join(verif.COQ, "Gen", "ProbeConsts.v")
    for attempt in range(8):
        n_broken = len(ctx.broken)
        gen_ok = ctx.gen()
        mine = open(gen_file).read() if gen_ok and os.path.exists(gen_file) else None
        model_ok = gen_ok and ctx.coq_model(["Spec/C10.vo"])
        proof_ok = gen_ok and ctx.coq_proofs("Properties/C10.v")
        now = open(gen_file).read() if os.path.exists(gen_file) else None
        if mine is None or now == mine:
            return gen_ok, model_ok, proof_ok
        ctx.info.append("Gen/ProbeConsts.v was rewritten by a concurrent check during the build; repeated")
        if attempt < 7:
            del ctx.broken[n_broken:]
            import time
            time.sleep(1 + attempt)
    return gen_ok, model_ok, proof_ok


def build_sx(ctx):
    """the real command-line binary, for the end-to-end cases (ties command/{elastic,docker}.go behaviourally)"""
    exe = os.path.join(ctx.work, "sx")
    rc, out = verif.sh(["go", "build", "-o", exe, "."], env=verif.GOENV, cwd=verif.REPO, timeout=900)
    if rc != 0:
        ctx.broken.append(("correspondence: the sx binary does not build", out[-1500:]))
        return None
    return exe


def corpus_rows(ctx):
    """regression inputs kept under corpus/: run first, judged like generated cases"""
    d = os.path.join(verif.ROOT, "corpus", ctx.pid)
    cases = []
    for f in sorted(os.listdir(d)) if os.path.isdir(d) else []:
        if f.endswith(".json"):
            cases += json.load(open(os.path.join(d, f)))
    return (rerun(ctx, cases, "corpus") or []) if cases else []


def shape(o):
    return (o["class"], o["scheme"], o["server_tls"], o["mode"],
            tuple(sorted((k, v["kind"], v.get("status", 0), v.get("body", "")) for k, v in o["slots"].items())))


def run(ctx):
    quick_tier = ctx.tier == "quick"
    ctx.trusted += [
        "net/http (client, transport, context handling), crypto/tls, encoding/json and the moby client (API version "
        "negotiation via /_ping, Info, ServerVersion, error mapping) are library behaviour, summarised by response classes "
        "in Model/HttpProbe.v and exercised through loopback peers; the model is the decision and sequencing logic on top",
        "the hand-written models of elastic.Scanner.Scan / docker.Scanner.Scan are tied to the code by the differential "
        "harness and by the structural facts in Gen/ProbeConsts.v"]
    ctx.assumptions += [
        "time bounds assume the operating system and net/http honour context deadlines; measured with %d ms slack" % SLACK_MS,
        "HTTP redirects (followed by net/http) are not modelled; a body that decodes as an object = the FIRST JSON value "
        "of the body is an object; the elastic probe ignores the HTTP status (the property does not mention it)",
        "docker: the /_ping version negotiation shares the probe's single timeout, so a peer that stalls /_ping is not "
        "reported even if it would serve /info (C10_docker_iff states the rule with the time that is left)"]
    gen_ok, model_ok, proof_ok = gen_and_build(ctx)
    rows, bad = [], {}
    if ctx.harness_build("c10"):
        args = ["-out", "cases.jsonl", "-seed", ctx.seed, "-n", 60 if quick_tier else 1500]
        if not quick_tier:
            args.append("-slow")   # answers later than the scanners' built-in defaults, inside a larger configured timeout (~11 s)
        sx = build_sx(ctx)
        if sx:
            args += ["-e2e", sx]
        ok, _ = ctx.harness_run("c10", args, timeout=3000)
        if ok:
            rows = corpus_rows(ctx) + ctx.read_jsonl(os.path.join(ctx.work, "cases.jsonl"))
        # many workers, one scanner, overlapping probes of different targets (always; ~1 s in quick)
        run_overlap(ctx, 3000 if quick_tier else 60000, 3000 if quick_tier else 40000)
        if not quick_tier:
            race_overlap(ctx)
    if rows:
        rows, bad = settle(ctx, rows, "cases", bool(model_ok))
        if model_ok:
            ctx.cov["traces_validated_against_impl"] += len(rows)
    for o in rows:
        ctx.count(o["class"], shape(o), nontrivial=(o["mode"] == "accept" and not mismatch(o)),
                  sample={"class": o["class"], "scheme": o["scheme"], "timeout_ms": o["timeout"], "cancel_ms": o["cancel"],
                          "slots": {k: "%s/%s/%s" % (v["kind"], v.get("status", ""), v.get("body", ""))
                                    for k, v in o["slots"].items()},
                          "outcome": OBS.get(o["obs"], o["obs"]), "requests_seen": o["reqs"], "dur_ms": o["dur_ms"]})
        if o["obs"] == 98:
            ctx.broken.append(("correspondence: harness could not run case %d (%s)" % (o["id"], o["err"]), ""))
            continue
        why = spec_on_impl(o)
        if why and not (o.get("inconclusive") and time_only(o)):
            report(ctx, o, why)
    for i, codes in sorted(bad.items())[:20]:
        o = rows[i]
        ctx.broken.append(("correspondence: case %d (%s): %s" % (o["id"], o["class"], "; ".join(CODES[c] for c in codes)),
                           json.dumps(o)[:900]))
    if getattr(ctx, "suppressed", 0):
        ctx.info.append("%d further failing cases of the same kinds are not listed" % ctx.suppressed)
    # a finding that is a recorded known finding explains the model/proof side only if the model agrees with the code
    slow_first = False
    if ctx.broken and not new_findings(ctx) and quick_tier and os.path.exists(os.path.join(verif.HBIN, "c10")):
        # time limits other than the configured one (e.g. a fixed http.Client.Timeout) only show with a configured timeout
        # above the built-in defaults and an answer later than those: ~11 s, so only here and in the thorough tier.
        # First when the changed sources point there, otherwise after the cheaper searches.
        diff = " ".join(getattr(ctx, "source_diff", []) or [])
        try:
            gen_txt = open(os.path.join(verif.COQ, "Gen", "ProbeConsts.v")).read()
        except OSError:
            gen_txt = ""
        own_limits = re.findall(r"(\w+_new_literal_timeouts) : list string := \[(.+?)\]", gen_txt)
        if own_limits:
            ctx.info.append("time limits besides the configured one: " + "; ".join("%s = [%s]" % kv for kv in own_limits))
        slow_first = bool(own_limits) or "NewScanner" in diff or "WithDataTimeout" in diff
        if slow_first:
            slow_search(ctx)
    if ctx.broken and not new_findings(ctx) and quick_tier and os.path.exists(os.path.join(verif.HBIN, "c10")):
        run_overlap(ctx, 60000, 25000, "overlap_search")
        if not new_findings(ctx) and not slow_first:
            slow_search(ctx)
    if ctx.broken and not new_findings(ctx) and os.path.exists(os.path.join(verif.HBIN, "c10")):
        ok, _ = ctx.harness_run("c10", ["-out", "search.jsonl", "-seed", ctx.seed + 23, "-n", 600], timeout=1500)
        if ok:
            srows = ctx.read_jsonl(os.path.join(ctx.work, "search.jsonl"))
            idxs = [i for i, o in enumerate(srows) if spec_on_impl(o)]
            if idxs and len(idxs) <= 300:
                again = rerun(ctx, [srows[i] for i in idxs], "search_retry")
                if again and len(again) == len(idxs):
                    for o in again:
                        why = spec_on_impl(o)
                        if why:
                            report(ctx, o, why)
    return ctx.finish(rule=RULE)


def replay(ctx, path):
    r = json.load(open(path))
    if "input" not in r:
        print(json.dumps(r, indent=1))
        return 1
    if not ctx.harness_build("c10"):
        return 1
    if r["input"].get("overlap"):
        for k in range(2):
            rows = overlap_stage(ctx, r["input"].get("probes", 3000) * (1 + 4 * k), 6000 * (1 + 2 * k), "overlap_replay%d" % k,
                                 r["input"].get("goroutines", 20)) or []
            for row in rows:
                if row["kind"] != r["input"].get("kind"):
                    continue
                why = judge_overlap(row)
                print("replay overlapping %s scans: %d goroutines, %d probes judged, misjudged: %s -> %s" % (
                    row["kind"], row["goroutines"], row["judged"],
                    [(b["target"], b["target_behaviour"], "reported" if b["reported"] else "not reported",
                      b["data_belongs_to"]) for b in row["bad"][:4]], why or "property holds on this input"))
                if why:
                    return 1
        return 0
    c = dict(r["input"])
    c.update({"port": 0, "obs": 0, "err": "", "dur_ms": 0, "reqs": None, "rec": None, "tries": 0})
    c["e2e"] = (build_sx(ctx) or "") if c.get("e2e") else ""
    for k in range(3):
        got = rerun(ctx, [c], "replay%d" % k)
        if not got:
            return 1
        o = got[0]
        why = spec_on_impl(o)
        print("replay case %s (%s): outcome=%s dur=%.1f ms requests=%s err=%r -> %s" % (
            c.get("id"), c.get("class"), OBS.get(o["obs"], o["obs"]), o["dur_ms"], o["reqs"], o["err"][:160],
            why or "property holds on this input"))
        if not why:
            return 0
    return 1


MANIFEST = {
    "technique": "Coq proof (decision/sequencing model of both probes over all per-request response scripts, logical time "
                 "with per-request / whole-probe deadlines and cancellation) + translated constants/wiring + differential "
                 "correspondence against scripted loopback HTTP and HTTPS peers",
    "level_text": "Theorems C10_elastic_iff (reported iff GET / answered in time with a body whose first JSON value is an "
                  "object; about the repaired code), C10_docker_iff / _partial / _refuted (exact rule incl. the time left "
                  "after /_ping; body null is reported: known finding), C10_secondary_harmless_{elastic,docker}, "
                  "C10_elastic_indexes_iff, C10_fields, C10_time (elastic <= 2T, docker <= T, every script), "
                  "C10_cancel_prompt, C10_wiring hold for all scripts/timeouts/cancellation times over constants regenerated "
                  "from the sources on every run; model compared with the real scanners (outcome incl. info/secondary "
                  "presence, record target, request sequence seen by the peer, duration) for every body class and fault at "
                  "every request, both schemes.",
    "level_note": "Partial: HTTP, TLS, JSON decoding and the moby client are library behaviour summarised by response "
                  "classes; time is logical (bounds measured with slack). Redirects not modelled. Needs "
                  "fixes/c09/fix-elastic-null.patch in /repo; docker+null is a known finding. No axioms.",
    "design_ref": "DESIGN.md section 5 (C10)",
}
