"""C14 -- JSON output: one complete, faithful JSON object per result, in order."""
import json
import os
import re

import verif

RULE = ("results of all seven result types (arp, tcp, icmp/udp, socks, elastic, docker) with field values drawn from 12 string "
        "classes (empty, printable, address, random bytes, control/special characters, valid multi-byte incl. U+2028/9 and "
        "plane edges, broken UTF-8 of every kind, mixtures, single bytes, byte runs, vendor, mac) and 64 KiB values; nested "
        "server maps (elastic) and reflectively filled docker Info/Version structs; all 256 one-byte strings and boundary "
        "two/three-byte strings through both escapers; JSON texts (valid and damaged) through encoding/json as the decoder "
        "tie; logger histories (closed / cancelled after k / with flush ticks) and unique-logger histories with random "
        "repetition patterns; whole-lines histories (150-500 results, > 4 KiB, taken by the loggers the packet / generic commands "
        "build in JSON mode while the result channel stays open: every Write to standard output ends at a line boundary); "
        "text that looks like JSON escapes (backslash + uXXXX) in values and map keys; back-pressure "
        "histories (one producer, NewResultChan of capacity 4 and 1000, more than 2x capacity results behind a stalled writer); "
        "producer bursts (2-12 ARP / TCP / ICMP reply frames of 2-5 hosts with repeats through the real "
        "processors into the real result channel, fully queued before the real JSON / unique logger prints them); one big "
        "unique-logger history (the 524288 addresses of 10.0.0.0/13, each seen three times "
        "interleaved) judged on the implementation alone; a record-LENGTH sweep through the real JSON logger (elastic x2, docker "
        "and one seed-chosen packet type: records whose encoded JSON takes EVERY length the type can have up to 9000 bytes, in a row; "
        "all six types at 2^9..2^16 -2..+2 bytes, three in a row; each line judged alone: one complete JSON object per result, on "
        "its own terminated line, in order, decoding back to the result), short such histories also evaluated by the model; non-trivial = a result/string that is actually encoded, a text Go accepts, a history with at "
        "least one result (uniq: with a repeated ID); distinct by generator string")

CODES = {1: "MarshalJSON bytes differ from the model's enc_record", 2: "the bytes do not decode to the sanitized values",
         3: "line feed inside the encoded object", 4: "ID() differs from the model's result_id",
         5: "values are not of the types the schema declares",
         11: "escaped string differs from the model's esc_string", 12: "escaped string does not read back as sanitize(s)",
         21: "the model decoder and encoding/json disagree on accepting the text", 22: "the model decoder yields another tree than encoding/json",
         31: "bytes written by the real logger differ from one line per taken result, in order",
         41: "results passed on by the real UniqueLogger differ from the model's first sightings",
         51: "output of the unique-logger chain (live ARP logger as the command builds it / unique logger after a producer burst) differs from the lines of the first sightings"}

KINDS = ["arp", "tcp", "icmp", "socks", "elastic", "docker"]


def packed(hexs):
    return verif.coq_packed(bytes.fromhex(hexs))


def tree_term(t):
    k = t[0]
    if k == "null":
        return "PNull"
    if k == "bool":
        return "(PBool %s)" % verif.coq_bool(t[1])
    if k == "num":
        return "(PNum %s)" % packed(t[1])
    if k == "str":
        return "(PStr %s)" % packed(t[1])
    if k == "arr":
        return "(PArr [%s])" % "; ".join(tree_term(x) for x in t[1])
    if k in ("obj", "map"):
        return "(%s [%s])" % ("PObj" if k == "obj" else "PMap",
                              "; ".join("(%s, %s)" % (packed(kv[0]), tree_term(kv[1])) for kv in t[1]))
    raise verif.Broken("harness emitted an unknown tree node %r" % (k,))


def val_term(v):
    if "s" in v:
        return "(CS %s)" % packed(v["s"])
    if "n" in v:
        return "(CN %s)" % verif.coq_z(int(v["n"]))
    if "b" in v:
        return "(CB %s)" % verif.coq_bool(v["b"])
    if "nil" in v:
        return "CNil"
    if "ptr" in v:
        return "(CPtr [%s])" % "; ".join(val_term(x) for x in v["ptr"])
    if "tree" in v:
        return "(CT %s)" % tree_term(v["tree"])
    raise verif.Broken("harness emitted an unknown value %r" % (v,))


def res_term(r):
    return "(%d%%nat, [%s])" % (r["kind"], "; ".join(val_term(v) for v in r["vals"]))


def case_term(o):
    t = o["t"]
    if t == "rec":
        return "KRec %d%%nat [%s] %s %s" % (o.get("kind", 0), "; ".join(val_term(v) for v in o["vals"]), packed(o.get("id", "")),
                                            packed(o.get("out", "")))
    if t == "str":
        return "KStr %s %s %s" % (verif.coq_bool(o.get("std", False)), packed(o.get("s", "")), packed(o.get("out", "")))
    if t == "dec":
        ok = bool(o.get("go_ok")) and bool(o.get("utf8_ok"))
        return "KDec %s %s %s" % (packed(o.get("txt", "")), verif.coq_bool(ok), tree_term(o["tree"]) if ok else "PNull")
    if t == "log":
        stream = "".join(o.get("writes") or [])
        return "KLog [%s] %s [%s]" % ("; ".join(res_term(r) for r in o.get("rs") or []), verif.coq_z(o.get("stop", 0)),
                                      packed(stream))
    if t == "uniq":
        return "KUniq [%s] %s [%s]" % ("; ".join(res_term(r) for r in o.get("rs") or []), verif.coq_bool(o.get("drop", False)),
                                       "; ".join(verif.coq_z(i) for i in o.get("outs") or []))
    if t == "live":
        return "KLive [%s] %s" % ("; ".join(res_term(r) for r in o.get("rs") or []), packed("".join(o.get("writes") or [])))
    raise verif.Broken("harness emitted an unknown case type %r" % (t,))


CHUNK = 150   # cases per list literal: a single huge literal overflows coqc's stack


def case_file(rows):
    body = ["From Coq Require Import ZArith List Uint63.", "From SX Require Import Base.Bytes Model.Json Spec.C14.",
            "Import ListNotations.", "Open Scope Z_scope."]
    names = []
    for k in range(0, len(rows), CHUNK):
        nm = "cases_%d" % (k // CHUNK)
        names.append(nm)
        body.append("Definition %s : list case := [" % nm)
        body.append(";\n".join(case_term(o) for o in rows[k:k + CHUNK]))
        body.append("].")
    body.append("Definition M := Eval vm_compute in check_all 0 (%s)." % " ++ ".join(names or ["[]"]))
    body.append("Definition L := Eval vm_compute in length (%s)." % " ++ ".join(names or ["[]"]))
    body.append("Print M. Print L.")
    return "\n".join(body)


def parse_eval(ctx, out, nrows):
    m = ctx.parse_result(out, "M")
    n_model = int(ctx.parse_result(out, "L"))
    if n_model != nrows:
        raise verif.Broken("case count differs between harness and model (%d vs %d)" % (nrows, n_model))
    res = []
    if m.strip() not in ("[]", "nil"):
        for idx, codes in re.findall(r"\((\d+), \[([^\]]*)\]\)", m):
            res.append((int(idx), [int(c.strip().strip("()")) for c in codes.split(";") if c.strip()]))
        if not res:
            raise verif.Broken("cannot parse mismatch list", m[:500])
    return res


def describe(o):
    """short human description of the input of a case"""
    d = {"type": o["t"], "class": o.get("class"), "generator": o["gen"]}
    if o["t"] == "rec":
        d["result_type"] = KINDS[o.get("kind", 0)]
        d["output"] = bytes.fromhex(o.get("out", ""))[:400].decode("utf-8", "backslashreplace")
        d["values"] = [(bytes.fromhex(v["s"])[:80].decode("utf-8", "backslashreplace") if "s" in v else
                        ("<tree>" if "tree" in v else v)) for v in o["vals"]]
    elif o["t"] == "str":
        d["escaper"] = "encoding/json" if o.get("std") else "easyjson"
        d["string_hex"] = o.get("s", "")[:200]
        d["output"] = bytes.fromhex(o.get("out", ""))[:200].decode("utf-8", "backslashreplace")
    elif o["t"] == "dec":
        d["text"] = bytes.fromhex(o.get("txt", ""))[:300].decode("utf-8", "backslashreplace")
        d["go_accepts"] = o.get("go_ok", False)
    elif o["t"] == "big":
        d["history"] = ("%s distinct hosts 10.0.0.0 upwards, each seen three times interleaved (i, i-1, i-7), through the real "
                        "unique logger" % o["gen"].split(":")[1])
        d["minimal_history"] = o.get("replay_gen")
    elif o["t"] == "sweep":
        d["sweep"] = o.get("sweep")
        d["history"] = ("records of one result type whose MarshalJSON output takes every length lo..hi (generator "
                        "lensweep:<type>:<logger>:<lo>:<hi>:<in a row>:<seed>), in increasing order through the real JSON logger")
        d["minimal_history"] = o.get("replay_gen")
    elif o["t"] == "live":
        d["results"] = len(o.get("rs") or [])
        d["stdout"] = b"".join(bytes.fromhex(x) for x in o.get("writes") or [])[:600].decode("utf-8", "backslashreplace")
    elif o["t"] == "log":
        d["results"] = len(o.get("rs") or [])
        d["stop"] = o.get("stop")
        d["written"] = b"".join(bytes.fromhex(x) for x in o.get("writes") or [])[:600].decode("utf-8", "backslashreplace")
    elif o["t"] == "uniq":
        d["results"] = len(o.get("rs") or [])
        d["passed_on"] = o.get("outs")
    return d


def key_of(o):
    if o["t"] == "rec":
        return "%s:%s" % (KINDS[o.get("kind", 0)], o.get("class", "").split(":", 1)[-1])
    return "%s:%s" % (o["t"], o.get("class", ""))


def report(ctx, o, why):
    k = key_of(o)
    if any(f["key"] == k for f in ctx.findings) or len(ctx.findings) >= 8:
        ctx.more_findings = getattr(ctx, "more_findings", 0) + 1
        return
    tag = re.sub(r"\W+", "-", o["gen"])[:60]
    path = ctx.write_replay(tag, {"property": "C14", "what": why, "input": {"gen": o.get("replay_gen") or o["gen"]},
                                  "found_by": o["gen"], "observed": describe(o),
                                  "replay_cmd": "bin/check C14 --replay <this file>"})
    ctx.findings.append({"key": key_of(o), "what": why, "replay": path})


def run_harness(ctx, name, args, timeout=1500):
    ok, _ = ctx.harness_run("c14", ["-out", name] + args, timeout=timeout)
    return ctx.read_jsonl(os.path.join(ctx.work, name)) if ok else []


def run(ctx):
    quick = ctx.tier == "quick"
    ctx.trusted += [
        "easyjson jwriter.Writer.String / strconv.AppendUint and encoding/json (appendString, struct and map walking, float "
        "formatting) are modelled, not verified: tied byte-for-byte by the differential check; float64 values of server "
        "supplied trees enter the model as the literal text strconv prints",
        "Go's encoding/json decoder is the independent decoder on the implementation side; the model's strict RFC 8259 "
        "decoder is tied to it on generated valid and damaged texts",
        "io.Writer.Write of the underlying writer is atomic and complete (short writes are not modelled)",
        "docker Info/Version: the member values are described to the model by the token stream of the output itself; "
        "faithfulness to the Go struct is judged by encoding/json decoding + reflect.DeepEqual on the implementation side"]
    ctx.assumptions += ["numbers of server supplied trees are valid JSON number texts (what json.Marshal prints for finite float64)",
                        "map keys of server supplied trees are distinct after U+FFFD replacement (keys produced by Go's JSON decoder are valid UTF-8)"]
    gen_ok = ctx.gen()
    model_ok = gen_ok and ctx.coq_model(["Spec/C14.vo"])
    proof_ok = gen_ok and ctx.coq_proofs("Properties/C14.v")
    rows = []
    if ctx.harness_build("c14"):
        if quick:
            args = ["-seed", ctx.seed, "-n", 2000, "-hist", 200, "-dec", 600, "-str", 800, "-big", 524288, "-burst", 240, "-sweep", 9000]
        else:
            args = ["-seed", ctx.seed, "-n", 30000, "-hist", 2500, "-dec", 6000, "-str", 6000, "-pairs", "-big", 2097152, "-burst", 6000, "-sweep", 20000]
        rows = run_harness(ctx, "cases.jsonl", args, timeout=3000)
    skipped = [o for o in rows if o["t"] == "skip"]
    rows = [o for o in rows if o["t"] != "skip"]
    if skipped:
        ctx.broken.append(("correspondence: the cancel-while-offering scenario of the unique logger could not be staged "
                           "(the implementation passes on another number of results than ID() predicts)", skipped[0]["gen"]))
    for o in rows:
        sample = None
        if o["t"] in ("rec", "log", "uniq", "live", "big", "sweep"):
            sample = describe(o)
        ctx.count(key_of(o) if o["t"] != "rec" else "rec:" + KINDS[o.get("kind", 0)], o["gen"], nontrivial=bool(o.get("nontrivial")),
                  sample=sample)
        if o.get("spec"):
            report(ctx, o, o["spec"])
    stricter = sum(1 for o in rows if o["t"] == "dec" and o.get("go_ok") and not o.get("utf8_ok"))
    if stricter:
        ctx.info.append("%d damaged texts with raw invalid UTF-8 inside a string are accepted by encoding/json (it substitutes "
                        "U+FFFD) and rejected by the model's strict decoder; expected, not compared" % stricter)
    # judged on the implementation alone (too big to be worth re-evaluating in Coq; the capacity-4 histories are)
    rows = [o for o in rows if o["t"] not in ("big", "sweep") and o.get("class") != "backpressure-cap1000"]
    if model_ok and rows:
        nshards = 16 if quick else 64
        size = max(1, (len(rows) + nshards - 1) // nshards)
        # interleave so that the heavy cases spread over the shards
        parts = [rows[i::nshards] for i in range(nshards)] if len(rows) >= nshards else [rows]
        parts = [p for p in parts if p]
        outs = ctx.coq_eval_many([("cases_%d" % i, case_file(p)) for i, p in enumerate(parts)], timeout=3000)
        nbad = 0
        for part, out in zip(parts, outs):
            for idx, codes in parse_eval(ctx, out, len(part)):
                o = part[idx]
                nbad += 1
                if nbad <= 8:
                    ctx.broken.append(("correspondence: %s: %s" % (o["gen"], "; ".join(CODES.get(c, str(c)) for c in codes)),
                                       json.dumps(describe(o))[:900]))
                elif nbad == 9:
                    ctx.broken.append(("correspondence: further cases disagree with the model", ""))
            ctx.cov["traces_validated_against_impl"] += len(part)
    if ctx.broken and not ctx.findings and os.path.exists(os.path.join(verif.HBIN, "c14")):
        # a proof or tie broke: look harder for an input on which the property itself fails on the real code
        more = run_harness(ctx, "search.jsonl", ["-seed", ctx.seed + 1000, "-n", 30000 if quick else 300000, "-hist", 2000,
                                                 "-dec", 0, "-str", 20000, "-pairs", "-big", 2097152, "-sweep", 20000], timeout=3000)
        seen = set()
        for o in more:
            if o.get("spec") and key_of(o) not in seen and len(seen) < 3:
                seen.add(key_of(o))
                report(ctx, o, o["spec"])
    if getattr(ctx, "more_findings", 0):
        ctx.info.append("%d further failing inputs of already reported classes were not written out" % ctx.more_findings)
    return ctx.finish(rule=RULE)


def replay(ctx, path):
    r = json.load(open(path))
    if "input" not in r:
        print(json.dumps(r, indent=1))
        return 1
    if not ctx.harness_build("c14"):
        return 1
    ok, _ = ctx.harness_run("c14", ["-out", "one.jsonl", "-replay", r["input"]["gen"]], timeout=600)
    if not ok:
        return 1
    o = ctx.read_jsonl(os.path.join(ctx.work, "one.jsonl"))[0]
    print(json.dumps(describe(o), indent=1))
    print("replay %s: %s" % (r["input"]["gen"], o.get("spec") or "property holds on this input"))
    return 1 if o.get("spec") else 0


MANIFEST = {
    "technique": "Coq proof (escape/unescape round trip over all byte strings by per-character-class lemmas, value trees, "
                 "records from translated schemas, induction over all logger and de-duplication histories) + translated "
                 "schemas + byte-exact differential correspondence with the real encoders, logger and unique logger",
    "level_text": "Theorems C14_roundtrip / C14_roundtrip_valid_utf8 / C14_one_line / C14_string_roundtrip / C14_sanitize_spec / "
                  "C14_order / C14_uniq hold for all values of every result schema (regenerated from struct tags, easyjson "
                  "encoders, MarshalJSON and ID methods on every run) and all histories; the model's bytes equal the real "
                  "MarshalJSON bytes, logger output and UniqueLogger output on generated cases of all seven result types.",
    "level_note": "Trusted: Coq kernel + VM, tools/gen schema transcription, harness comparison. easyjson jwriter and "
                  "encoding/json are modelled (string escaping, integers, object layout, map key order) and tied differentially; "
                  "float64 formatting and the docker structs' reflective layout are not modelled (literal number text; tree taken "
                  "from the output's token stream, faithfulness judged by encoding/json + DeepEqual). No axioms.",
    "design_ref": "DESIGN.md section 5 (C14)",
}
