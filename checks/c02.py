"""C02 -- confinement: nothing outside the target set or inside exclusions is probed; non-IPv4 targets refused."""
import json
import os
import re

import verif

RULE = ("target strings by class (dotted IPv4, IPv4 CIDR /0../32 aligned and unaligned, every IPv6 notation incl. "
        "IPv4-mapped and zone ids, IPv6 CIDR with small and large host parts, garbage) through the real ip.ParseIPNet; "
        "nets (IPv4 /0../32, 16-byte spellings, IPv6, non-canonical masks, nil) through the real ipGenerator with seeded "
        "math/rand (risky ones in a child process); exclusion files (hosts, CIDRs, families of nested entries in narrow-first / wide-first / shuffled order "
        "sharing or not sharing first and last address, duplicates, host+net, adjacent siblings, covering blocks, comments, "
        "blanks, one refused line in a sixth of them) through the real parseExcludeFile + cidranger + filter stage, "
        "membership asked for every address of a /20../32 and at first-1/first/last/last+1 of every entry; LONG exclusion files "
        "(more than 4096 and more than 65536 bytes, hundreds to thousands of entries: host lists and block lists of one text "
        "width, tables padded to one column width, free-form files of mixed line lengths, comments and blank lines in between) "
        "through the real parseExcludeFile and then the real tcp/udp generator chain (address generator x port -> exclusion "
        "filter) over a /19../21: exactly the addresses no listed entry covers are let through; end to end: arp/icmp/tcp/udp/tcp fin/socks/elastic/docker with "
        "IPv6, mapped and garbage targets in a network namespace with a wire log; exclusion FILES through the real option parsing "
        "of every packet command (arp, icmp, udp, tcp, tcp syn/fin/null/xmas, tcp --flags) and of socks/elastic/docker: valid "
        "entries plus one invalid / IPv6 / over-long line combined with -i, --srcmac, -r (exit 1, nothing on the wire) and the "
        "accepted counterpart (exactly the uncovered addresses on the wire), also with an exclusion list that covers only the FIRST "
        "address (or the first /29) of the target block; arp --live with --exclude (first passes observed, then "
        "interrupted); docker / elastic / socks (http and https) against local target listeners with DOCKER_HOST, HTTP_PROXY, "
        "HTTPS_PROXY, ALL_PROXY pointing at a decoy listener, and against target listeners (http and https) that answer every request "
        "with 301/302/307/308 and a Location at the decoy (no connection may go anywhere but to the targets); non-trivial = accepted target / complete or prefix walk / "
        "accepted exclusion file; distinct by input")

CODES = {1: "ParseIPNet: accept/reject differs from the model", 2: "ParseIPNet: accepted net differs from the model",
         3: "a library parser result violates what the theorems assume about it",
         11: "ipGenerator: error differs", 12: "ipGenerator: addresses differ from the model", 13: "ipGenerator: completion differs",
         14: "ipGenerator: crash behaviour differs",
         21: "exclusion file: cleaned line differs", 22: "exclusion file: accept/reject differs",
         23: "exclusion: membership differs on the net", 24: "exclusion: membership differs on another spelling",
         25: "filter stage output differs", 26: "a library parser result violates what the theorems assume about it"}

ERRNAME = {0: "", 1: "invalid port range", 2: "invalid subnet", 3: "invalid ip", 4: "invalid port", 5: "invalid json",
           6: "line too long", 7: "cannot open", 8: "range size", 9: "invalid cyclic group", 11: "exclusion lookup failed",
           12: "no destination MAC", 99: "other"}


def hb(h):
    return bytes.fromhex(h or "")


def zl(h):
    return verif.coq_bytes(hb(h))


def net_term(j):
    if not j.get("ok"):
        return "None"
    return "(Some (%s, %s))" % (zl(j["ip"]), zl(j.get("mask", "")))


def addr_term(j):
    if not j.get("ok"):
        return "None"
    return "(Some %s)" % zl(j["ip"])


def case_term(o):
    k = o["kind"]
    if k == "parse":
        return "CParse {| pc_cidr := %s; pc_addr := %s; pc_impl := %s |}" % (
            net_term(o["cidr"]), addr_term(o["addr"]), net_term(o["impl"]))
    if k == "ips":
        ob = o["obs"]
        err = {0: 0, 2: 1, 8: 2, 9: 3}.get(ob["err"], 9)
        net = "(Some (%s, %s))" % (zl(o["ip"]), zl(o["mask"])) if o["has_net"] else "None"
        return ("CIps {| ic_net := %s; ic_r1 := %s; ic_r2 := %s; ic_fuel := %d%%positive; ic_err := %d; ic_crashed := %s; "
                "ic_complete := %s; ic_addrs := %s |}") % (
            net, verif.coq_z(o["r1"]), verif.coq_z(o["r2"]), max(1, o["limit"]), err, verif.coq_bool(ob["crashed"]),
            verif.coq_bool(ob["complete"]), verif.coq_packed(hb(ob["addrs"])))
    if k == "excl":
        lines = verif.coq_list(["{| el_raw := %s; el_clean := %s; el_cidr := %s; el_addr := %s |}" % (
            zl(l["raw"]), zl(l["clean"]), net_term(l["cidr"]), addr_term(l["addr"])) for l in o["lines"]])
        extra = verif.coq_list(["(%s, %s)" % (zl(x[0]), x[1]) for x in (o.get("extra") or [])])
        return ("CExcl {| ec_lines := %s; ec_impl_ok := %s; ec_net := (%s, %s); ec_member := %s; ec_extra := %s; "
                "ec_in := %s; ec_out := %s |}") % (
            lines, verif.coq_bool(o["impl_ok"]), zl(o["net_ip"]), zl(o["net_mask"]), verif.coq_packed(hb(o.get("member"))),
            extra, verif.coq_packed(hb(o.get("in"))), verif.coq_packed(hb(o.get("out"))))
    raise verif.Broken("unknown case kind " + k)


def decode_reqs(b):
    out, i = [], 0
    while i < len(b):
        n = b[i]
        ip = b[i + 1:i + 1 + n]
        i += 1 + n
        port = b[i] * 256 + b[i + 1]
        err, m = b[i + 2], b[i + 3]
        mac = b[i + 4:i + 4 + m]
        i += 4 + m
        out.append((bytes(ip), port, err, bytes(mac)))
    return out


def v4num(ip):
    if len(ip) == 4:
        return int.from_bytes(ip, "big")
    if len(ip) == 16 and ip[:12] == bytes(10) + b"\xff\xff":
        return int.from_bytes(ip[12:], "big")
    return None


_COVER = {}


def covering(lines, x):
    """index of the first line whose entry covers address x, or None (by the meaning the lines have by construction)"""
    ix = _COVER.get(id(lines))
    if ix is None or ix[0] is not lines:
        d = {}
        for n, l in enumerate(lines):
            if l["meaning"] == "net":
                d.setdefault(l["prefix"], {}).setdefault(l["base"] >> (32 - l["prefix"]), n)
        ix = (lines, sorted(d.items()))
        if len(_COVER) > 64:
            _COVER.clear()
        _COVER[id(lines)] = ix
    best = None
    for p, bases in ix[1]:
        n = bases.get(x >> (32 - p))
        if n is not None and (best is None or n < best):
            best = n
    return best


def covered(lines, x):
    return covering(lines, x) is not None


def judge_long_chain(o):
    """long exclusion files: the real generator chain of the tcp/udp commands (address generator x port -> exclusion
    filter) over the target net lets through exactly the addresses that no listed entry covers"""
    if "chain" not in o and not o.get("bytes"):
        return None
    lines = o["lines"]
    nent = sum(1 for l in lines if l["meaning"] == "net")
    head = "exclusion file of %d bytes, %d lines, %d entries (%s), target %s/%d through the real generator -> exclusion filter chain" % (
        o.get("bytes", 0), len(lines), nent, o["class"], dotted(o["net_base"]), o["net_k"])
    if not o.get("chain_ok"):
        return head + ": the chain does not finish"
    cb = hb(o.get("chain"))
    got = set(int.from_bytes(cb[i:i + 4], "big") for i in range(0, len(cb), 4))
    size = 1 << (32 - o["net_k"])
    probed_covered, lost, foreign = [], [], []
    for x in sorted(got):
        if not (o["net_base"] <= x < o["net_base"] + size):
            foreign.append(x)
            continue
        n = covering(lines, x)
        if n is not None:
            probed_covered.append((x, n))
    for i in range(size):
        x = o["net_base"] + i
        if x not in got and not covered(lines, x):
            lost.append(x)
    if probed_covered:
        x, n = probed_covered[0]
        return "%s: %s is covered by the entry %r (line %d of the file) but is probed; %d covered addresses are probed in all%s" % (
            head, dotted(x), hb(lines[n]["raw"]).decode("latin1").strip(), n + 1, len(probed_covered),
            ("; %d addresses that no entry covers are never probed (first: %s)" % (len(lost), dotted(lost[0]))) if lost else "")
    if lost:
        return "%s: %s is covered by no entry of the file but is never probed (exclusion removes %d addresses it does not cover)" % (
            head, dotted(lost[0]), len(lost))
    if foreign:
        return "%s: %s outside the target is probed" % (head, dotted(foreign[0]))
    if o.get("chain_other"):
        return "%s: %d requests carry an error or no IPv4 address" % (head, o["chain_other"])
    return None


def dotted(x):
    return ".".join(str((x >> s) & 255) for s in (24, 16, 8, 0))


def spec_on_impl(o):
    """The property judged on the implementation's observation alone. Returns None or a reason."""
    k = o["kind"]
    if k == "parse":
        cls, impl, gen = o["class"], o["impl"], o.get("gen")
        if cls in ("ipv6", "ipv6-cidr", "garbage", "garbage6"):
            if impl["ok"]:
                what = "target %s is not IPv4 but is accepted as ip=%s mask=%s" % (o["text"], impl["ip"] or "nil", impl["mask"])
                if gen and gen["crashed"]:
                    what += "; generating its addresses crashes the process"
                elif gen and gen["addrs"]:
                    a = hb(gen["addrs"])
                    what += "; first address probed: %s" % ".".join(str(x) for x in a[:4])
                return what
            return None
        if cls in ("ipv4-host", "ipv4-cidr"):
            if not impl["ok"]:
                return "IPv4 target %s is refused" % o["text"]
            if impl["ip"] != o["want_ip"] or impl["mask"] != o["want_mask"]:
                return "IPv4 target %s is read as ip=%s mask=%s" % (o["text"], impl["ip"], impl["mask"])
        if impl["ok"]:
            if len(hb(impl["ip"])) != 4 or len(hb(impl["mask"])) != 4:
                return "target %s is accepted as a non-IPv4 net ip=%s mask=%s" % (o["text"], impl["ip"] or "nil", impl["mask"])
            if gen:
                if gen["crashed"]:
                    return "generating the addresses of accepted target %s crashes the process" % o["text"]
                base, mask = int(impl["ip"], 16), int(impl["mask"], 16)
                a = hb(gen["addrs"])
                for i in range(0, len(a), 4):
                    x = int.from_bytes(a[i:i + 4], "big")
                    if (x & mask) != (base & mask):
                        return "target %s: address %s outside the target is generated" % (o["text"], dotted(x))
        return None
    if k == "ips":
        if not o["class"].startswith("v4-") or o["class"] == "v4-16byte-mask":
            return None
        ob = o["obs"]
        if ob["crashed"]:
            return "the generator crashes on IPv4 net %s/%s" % (o["ip"], o["mask"])
        if ob["err"]:
            return "the generator refuses IPv4 net %s/%s" % (o["ip"], o["mask"])
        ipb = hb(o["ip"])
        base, mask = v4num(ipb), int(o["mask"], 16)
        a = hb(ob["addrs"])
        seen = set()
        for i in range(0, len(a), 4):
            x = int.from_bytes(a[i:i + 4], "big")
            if (x & mask) != (base & mask):
                return "net %s/%s: address %s outside the net is generated" % (o["ip"], o["mask"], dotted(x))
            if x in seen:
                return "net %s/%s: address %s is generated twice" % (o["ip"], o["mask"], dotted(x))
            seen.add(x)
        if ob["complete"] and len(seen) != (~mask & 0xffffffff) + 1:
            return "net %s/%s: %d of %d addresses generated" % (o["ip"], o["mask"], len(seen), (~mask & 0xffffffff) + 1)
        return None
    if k == "excl":
        lines = o["lines"]
        bad = [l for l in lines if l["meaning"] == "bad"]
        if bad:
            if o["impl_ok"]:
                return "exclusion file with the entry %r is accepted" % hb(bad[0]["raw"]).decode("latin1")
            return None
        if not o["impl_ok"]:
            if o.get("bytes"):
                return "well-formed exclusion file of %d bytes / %d lines (%s) is refused: %s" % (
                    o["bytes"], len(lines), o["class"], o.get("impl_err"))
            return "well-formed exclusion file is refused: %s" % o.get("impl_err")
        why = judge_long_chain(o)
        if why:
            return why
        member = hb(o["member"])
        for i, m in enumerate(member):
            x = o["net_base"] + i
            want = 1 if covered(lines, x) else 0
            if m != want:
                return "exclusion membership of %s is %d, the file says %d" % (dotted(x), m, want)
        for xh, ans in o.get("extra") or []:
            x = v4num(hb(xh))
            if x is None:
                continue
            want = 1 if covered(lines, x) else 0
            if int(ans) != want:
                return "exclusion membership of %s (a boundary of an entry) is %s, the file says %d" % (dotted(x), ans, want)
        if not o["out_ok"]:
            return "filter stage did not close its output"
        rin, rout = decode_reqs(hb(o["in"])), decode_reqs(hb(o["out"]))
        want = []
        for (ip, port, err, mac) in rin:
            if err:
                want.append((ip, port, err, mac))
                continue
            x = v4num(ip)
            if x is None:
                want.append(None)  # request without an address: not judged
                continue
            if not covered(lines, x):
                want.append((ip, port, err, mac))
        if len(want) != len(rout):
            return "filter stage passes %d of %d requests, the exclusion list says %d" % (len(rout), len(rin), len(want))
        for w, g in zip(want, rout):
            if w is None:
                continue
            if w != g:
                if w[2] and g[2] != w[2]:
                    return "filter stage turns the error '%s' of a request into '%s'" % (ERRNAME.get(w[2]), ERRNAME.get(g[2], g[2]))
                return "filter stage passes %r where %r is due" % (g, w)
        return None
    return None


def narrow_before_wide(o):
    """does the file list a narrower entry BEFORE a wider one with the same network address?"""
    nets = [(l["base"], l["prefix"]) for l in o["lines"] if l["meaning"] == "net"]
    for i, (b1, p1) in enumerate(nets):
        for (b2, p2) in nets[i + 1:]:
            if p2 < p1 and (b1 >> (32 - p1)) << (32 - p1) == (b2 >> (32 - p2)) << (32 - p2):
                return True
    return False


def nested_pairs(o):
    nets = [(l["base"], l["prefix"]) for l in o["lines"] if l["meaning"] == "net"]
    n = 0
    for i, (b1, p1) in enumerate(nets):
        for j, (b2, p2) in enumerate(nets):
            if i != j and p2 < p1 and (b1 >> (32 - p2)) == (b2 >> (32 - p2)):
                n += 1
    return n


# Genuine defects of the UNCHANGED code found by this check and reported to the lead with a fix patch; until the fix is
# committed (or a known_findings.json entry exists) findings with these keys are printed as PENDING-DEFECT and do not
# fail the check.  REMOVE the entry once fixes/c02/fix-docker-scan-ignores-proxy-env.patch is applied.
# (the docker proxy-environment defect was repaired by fix e830a21)
PENDING_DEFECTS = {}


def judge_e2e(o):
    """refuse cases: exit status 1 and nothing on the wire; exclude-ok cases: exactly the uncovered addresses probed"""
    argv = " ".join(a if len(a) < 70 else a[:67] + "..." for a in o["argv"])
    if o["class"].startswith("exclude-ok") and not o.get("set"):
        from checks import c01
        why = c01.judge_e2e(o)
        if not why and o["rc"] != 0:
            why = "sx %s: the command fails (exit status %d: %s) although the exclusion file leaves addresses of the target to scan" % (
                argv, o["rc"], (o.get("stderr") or "").strip().split("\n")[0][:120])
        return why
    if o.get("set"):
        # judged as a set: every due destination at least once, nothing else, never the decoy
        import collections
        fb = bytes.fromhex(o.get("frames") or "")
        got = collections.Counter(fb[i:i + 6] for i in range(0, len(fb), 6))
        want = set(int(a).to_bytes(4, "big") + int(p).to_bytes(2, "big") for a, p in o["want"])

        def show(k):
            return "%s:%d" % (dotted(int.from_bytes(k[:4], "big")), int.from_bytes(k[4:], "big"))
        env = (" with " + " ".join(o["env"])) if o.get("env") else ""
        named = "the endpoint named in the environment"
        if o.get("redirect"):
            env = " against targets answering %s with Location %s" % tuple(o["redirect"].split(":", 1))
            named = "the Location of the targets' answer"
        decoy = bytes.fromhex(o["decoy"]) if o.get("decoy") else None
        if decoy and got.get(decoy):
            return "sx %s%s: %d connection(s) go to %s, which is not a target (%s), %d to the %d targets" % (
                argv, env, got[decoy], show(decoy), named, sum(v for k, v in got.items() if k in want), len(want))
        extra = sorted(k for k in got if k not in want)
        if extra:
            what = "is covered by the exclusion file but probed" if o["class"].startswith("exclude-live") else "is not a target but is contacted"
            return "sx %s%s: %s %s (%d time(s)); %d destinations outside the specification in all" % (
                argv, env, show(extra[0]), what, got[extra[0]], len(extra))
        missing = sorted(k for k in want if k not in got)
        if missing:
            return "sx %s%s: target %s is never contacted (%d of %d targets missing)" % (argv, env, show(missing[0]), len(missing), len(want))
        return None
    what = "the target"
    if o["class"].startswith("badexclude"):
        what = "the exclusion file (it has valid entries and one %s line)" % {"invalid": "invalid", "ipv6": "IPv6", "overlong": "over-long"}.get(o.get("bad"), "bad")
    if o["nframes"]:
        fb = bytes.fromhex(o["frames"])
        first = fb[:6]
        return "sx %s: %s must be refused, but %d frame(s) reach the wire (first: ethertype %04x towards %s), exit status %d" % (
            argv, what, o["nframes"], int.from_bytes(first[:2], "big"), dotted(int.from_bytes(first[2:], "big")), o["rc"])
    if o["rc"] == 0:
        return "sx %s: exits with status 0 instead of refusing %s" % (argv, what)
    if o["rc"] != 1:
        return "sx %s: ends with status %d: %s" % (argv, o["rc"], (o.get("stderr") or "")[-200:])
    return None


def judge_chain(o):
    """a generator chain with an exclusion list: no covered address probed, no uncovered one lost"""
    import collections
    from checks import c01
    why = c01.spec_on_impl(o)
    if not why:
        return None
    pb = hb(o.get("probes"))
    got = collections.Counter(pb[i:i + 6] for i in range(0, len(pb), 6))
    extra = got - c01.denote(o)
    nets = o.get("nets") or []
    for k in sorted(extra):
        x = int.from_bytes(k[:4], "big")
        for b, p in nets:
            if (x >> (32 - p)) == (b >> (32 - p)):
                return "%s (%s): %s is covered by the exclusion entry %s/%d but is probed (port %d); exclusion list %s" % (
                    o["class"], o.get("source") or "subnet /%s" % o.get("net_k"), dotted(x), dotted(b), p,
                    int.from_bytes(k[4:], "big"), ["%s/%d" % (dotted(b2), p2) for b2, p2 in nets])
    return why


def key_of(o):
    if o["kind"] == "parse":
        return ("parse", o["s"])
    if o["kind"] == "ips":
        return ("ips", o["ip"], o["mask"], o["seed"])
    return ("excl", o["seed"])


def nontrivial(o):
    if o["kind"] == "parse":
        return o["impl"]["ok"] or o["class"] in ("ipv6", "ipv6-cidr")
    if o["kind"] == "ips":
        return len(o["obs"]["addrs"]) >= 16 or o["obs"]["crashed"]
    return o["impl_ok"]


def sample_of(o):
    if o["kind"] == "parse":
        return {"kind": "parse", "class": o["class"], "target": o["text"], "accepted": o["impl"]["ok"],
                "ip": o["impl"]["ip"], "mask": o["impl"]["mask"]}
    if o["kind"] == "ips":
        return {"kind": "ips", "class": o["class"], "ip": o["ip"], "mask": o["mask"], "seed": o["seed"],
                "first": o["obs"]["addrs"][:32], "crashed": o["obs"]["crashed"], "err": o["obs"]["err"]}
    return {"kind": "excl", "class": o["class"], "lines": [hb(l["raw"]).decode("latin1") for l in o["lines"]][:6],
            "net": "%s/%d" % (dotted(o["net_base"]), o["net_k"]), "accepted": o["impl_ok"],
            **({"bytes": o["bytes"], "nlines": len(o["lines"]), "passed_chain": len(o.get("chain") or "") // 8} if o.get("bytes") else {})}


def case_file(rows):
    body = ["From Coq Require Import ZArith List Uint63.", "From SX Require Import Base.Bytes Model.IPNet Spec.C02.",
            "Import ListNotations.", "Open Scope Z_scope.",
            "Definition cases : list case := ["]
    body.append(";\n".join(case_term(o) for o in rows))
    body.append("].")
    body.append("Definition M := Eval vm_compute in check_all 0 cases.")
    body.append("Definition L := Eval vm_compute in length cases.")
    body.append("Print M. Print L.")
    return "\n".join(body)


def parse_eval(ctx, out, nrows, offsets):
    m = ctx.parse_result(out, "M")
    n_model = int(ctx.parse_result(out, "L"))
    if n_model != nrows:
        raise verif.Broken("case count differs between harness and model (%d vs %d)" % (nrows, n_model))
    res = []
    if m.strip() not in ("[]", "nil"):
        for idx, codes in re.findall(r"\((\d+), \[([^\]]*)\]\)", m):
            res.append((int(idx), [int(c.strip().strip("()")) for c in codes.split(";") if c.strip()]))
        if not res:
            raise verif.Broken("cannot parse mismatch list", m[:500])
    return res


def report(ctx, o, why):
    if o["kind"] == "parse":
        inp = {"kind": "parse", "s": o["s"], "text": o["text"], "seed": o["seed"]}
        key = "parse:" + o["text"]
        tag = "parse-" + o["s"][:24]
    elif o["kind"] == "ips":
        inp = {"kind": "ips", "ip": o["ip"], "mask": o["mask"], "seed": o["seed"], "limit": o["limit"]}
        key = "ips:%s/%s" % (o["ip"], o["mask"])
        tag = "ips-%s-%s" % (o["ip"][:16], o["mask"][:16])
    else:
        inp = {"kind": "excl", "seed": o["seed"], "class": o["class"],
               "lines": [hb(l["raw"]).decode("latin1") for l in o["lines"]], "net": "%s/%d" % (dotted(o["net_base"]), o["net_k"])}
        key = "excl:seed=%d" % o["seed"]
        tag = "excl-%d" % o["seed"]
    small = {k: v for k, v in o.items() if k not in ("member", "in", "out", "chain", "extra" if o.get("bytes") else "")}
    small.setdefault("net_base", 0)
    small.setdefault("net_k", 0)
    path = ctx.write_replay(tag or "case", {"property": "C02", "what": why, "input": inp, "observed": small,
                                            "replay_cmd": "bin/check C02 --replay <this file>"})
    ctx.findings.append({"key": key, "what": why, "replay": path})


def run(ctx):
    quick = ctx.tier == "quick"
    ctx.trusted += ["net.ParseCIDR / netip.ParseAddr are oracle inputs of the model (their results are checked against the "
                    "assumed shape lib_cidr_ok / lib_addr_ok on every case); net.IP.Mask/To4/IPMask.Size/CIDRMask/"
                    "IPNet.Contains transcribed by hand from the Go sources; cidranger modelled by its meaning (set "
                    "membership) and compared on whole subnets; math/big = Z; math/rand draws universally quantified",
                    "pkg/scan/verif_export.go, command/verif_export_c01.go (build tag verif)"]
    ctx.assumptions += ["the target argument reaches the generators only through ip.ParseIPNet (parseDstSubnet, arp RunE)"]
    from checks import tgtlib
    gen_ok, model_ok, proof_ok = tgtlib.gen_and_prove(ctx, "Spec/C02.vo", "Properties/C02.v", more=["Properties/C02Redirect.v", "Properties/C02Wire.v"])
    # say which statements of parseExcludeFile differ from the shape the model was written against
    try:
        import difflib

        def shape(path):
            txt = open(path).read()
            txt = txt[txt.index(":= ["):]
            return [m.replace('""', '"') for m in re.findall(r'^\s*"((?:[^"]|"")*)";?\s*$', txt, re.M)]
        got = shape(os.path.join(verif.COQ, "Gen", "ExcludeShape.v"))
        want = shape(os.path.join(verif.COQ, "Model", "ExcludeShape.v"))
        if got != want:
            d = [l for l in difflib.unified_diff(want, got, "model", "command/config.go", lineterm="", n=1)]
            ctx.broken.append(("tie: the body of parseExcludeFile is not the one Model/Exclude.v was written against "
                               "(theorem C02_exclude_shape)", "\n".join(d)[:1500]))
    except (OSError, ValueError):
        pass
    rows = []
    if ctx.harness_build("c02"):
        args = ["-out", "cases.jsonl", "-seed", ctx.seed]
        args += ["-n", 1600, "-nips", 120, "-nexcl", 60, "-full", 1024, "-nlong", 8] if quick else \
                ["-n", 100000, "-nips", 4000, "-nexcl", 2500, "-full", 4096, "-nlong", 96]
        ok, _ = ctx.harness_run("c02", args, timeout=3000)
        if ok:
            rows = ctx.read_jsonl(os.path.join(ctx.work, "cases.jsonl"))
    ex = [o for o in rows if o["kind"] == "excl" and o["impl_ok"]]
    if ex:
        ctx.info.append("exclusion files: %d accepted, %d with nested entries, %d with a narrower entry listed before a wider one "
                        "with the same network address" % (len(ex), sum(1 for o in ex if nested_pairs(o)),
                                                           sum(1 for o in ex if narrow_before_wide(o))))
    lg = [o for o in rows if o["kind"] == "excl" and o.get("bytes")]
    if lg:
        ctx.info.append("long exclusion files: %d (%d accepted), %d..%d bytes, %d..%d lines, %d longer than 65536 bytes; the real "
                        "generator -> filter chain let %d addresses through in all" % (
                            len(lg), sum(1 for o in lg if o["impl_ok"]), min(o["bytes"] for o in lg), max(o["bytes"] for o in lg),
                            min(len(o["lines"]) for o in lg), max(len(o["lines"]) for o in lg),
                            sum(1 for o in lg if o["bytes"] > 65536), sum(len(o.get("chain") or "") // 8 for o in lg)))
    per_class = {}
    for o in rows:
        ctx.count(o["kind"] + ":" + o["class"], key_of(o), nontrivial=nontrivial(o), sample=sample_of(o))
        why = spec_on_impl(o)
        if why:
            # a handful of replay files per input class is enough
            c = o["kind"] + ":" + o["class"]
            per_class[c] = per_class.get(c, 0) + 1
            if per_class[c] <= 2 and len(ctx.findings) < 8:
                report(ctx, o, why)
    # end to end: every command given a target that is not IPv4 must exit non-zero with nothing on the wire
    if rows and ctx.harness_build("c01"):
        sx = os.path.join(ctx.work, "sx")
        rc, out = verif.sh(["go", "build", "-o", sx, "."], env=verif.GOENV, cwd=verif.REPO, timeout=900)
        e2e = []
        if rc != 0:
            ctx.broken.append(("correspondence: the sx binary does not build", out[-1500:]))
        else:
            ok, _ = ctx.harness_run("c01", ["-e2e", sx, "-e2eset", "refuse", "-out", "e2e.jsonl", "-seed", ctx.seed,
                                            "-ne2e", 46 if quick else 330], timeout=3000)
            if ok:
                e2e = ctx.read_jsonl(os.path.join(ctx.work, "e2e.jsonl"))
        pending_seen = set()
        for idx, o in enumerate(e2e):
            if o.get("skipped"):
                ctx.skipped.append("e2e %s: %s" % (o["class"], o["skipped"][:200]))
                continue
            ctx.count("e2e:" + o["class"], ("e2e", idx), nontrivial=True,
                      sample={"kind": "e2e", "argv": " ".join(o["argv"])[-120:], "frames": o["nframes"], "exit": o["rc"]})
            why = judge_e2e(o)
            if why:
                k = "e2e:" + (o["class"] + ":" + o.get("opt", "") if o.get("opt") else o["argv"][-1])
                if o["class"] in ("appenv:docker", "appenv:docker-https") and o.get("opt") in ("HTTP_PROXY", "HTTPS_PROXY", "ALL_PROXY"):
                    k = "e2e:appenv:docker:proxy-env"
                if o["class"].startswith("redirect:") and "go to" in why:
                    k = "e2e:redirect:%s:follows-redirect" % o["class"].split(":")[1].replace("-https", "")
                rep = {"property": "C02", "what": why, "input": {"kind": "e2e", "index": idx, "seed": ctx.seed, "argv": o["argv"]},
                       "observed": {k2: v for k2, v in o.items() if k2 != "frames"}, "replay_cmd": "bin/check C02 --replay <this file>"}
                if k in PENDING_DEFECTS:
                    if k not in pending_seen:
                        pending_seen.add(k)
                        path = ctx.write_replay("e2e-%d" % idx, rep)
                        print("PENDING-DEFECT: property=C02 %s -- e.g. %s (replay=%s)" % (PENDING_DEFECTS[k], why, path), flush=True)
                        ctx.info.append("PENDING-DEFECT (genuine, reported, not failing the check): %s; observed: %s" % (PENDING_DEFECTS[k], why))
                    continue
                c = "e2e:" + o["class"]
                per_class[c] = per_class.get(c, 0) + 1
                if per_class[c] <= 2:
                    path = ctx.write_replay("e2e-%d" % idx, rep)
                    ctx.findings.append({"key": k, "what": why, "replay": path})
    # the generator chains of EVERY command family with an exclusion list (tcp/udp/icmp/arp scan methods, the generic
    # engine of socks/docker/elastic; subnet, pairs file, address file x ports): nothing covered is probed, nothing
    # uncovered is lost
    chains = []
    if rows and ctx.harness_build("c01"):
        ok, _ = ctx.harness_run("c01", ["-out", "chains.jsonl", "-seed", ctx.seed + 11, "-nports", 0, "-nnested", 0,
                                        "-nchain", 60 if quick else 3000, "-forcefilter"], timeout=3000)
        if ok:
            chains = ctx.read_jsonl(os.path.join(ctx.work, "chains.jsonl"))
    # the real packet pipeline of the commands (address generator -> port nesting -> exclusion filter -> ARP stage ->
    # NumCPU fillers -> merger) over a /21../22 with half of it excluded and a SLOW consumer, observed on the frames:
    # what is finally put into a frame must still be what the filter saw
    if rows and ctx.harness_build("c01"):
        ok, _ = ctx.harness_run("c01", ["-out", "slow.jsonl", "-seed", ctx.seed + 12, "-nports", 0, "-nnested", 0, "-nchain", 0,
                                        "-nframes", 4 if quick else 60, "-slowframes"], timeout=3000)
        if ok:
            chains += ctx.read_jsonl(os.path.join(ctx.work, "slow.jsonl"))
    for o in chains:
        ctx.count("chain:" + o["class"], ("chain", o["case_seed"]), nontrivial=o["nprobes"] >= 1,
                  sample={"kind": "chain", "class": o["class"], "exclusion": [[dotted(b), p] for b, p in (o.get("nets") or [])][:4],
                          "lines": o.get("nlines"), "probes": o.get("nprobes")})
        why = judge_chain(o)
        if why:
            c = "chain:" + o["class"]
            per_class[c] = per_class.get(c, 0) + 1
            if per_class[c] <= 2:
                small = {k: v for k, v in o.items() if k not in ("out", "probes", "lines_enc", "cache_enc", "pairs", "draws")}
                path = ctx.write_replay("chain-%d" % o["case_seed"], {
                    "property": "C02", "what": why, "input": {"kind": "chain", "case_seed": o["case_seed"], "big": bool(o.get("big")),
                                                              "frames": bool(o.get("frames")), "slow": bool(o.get("slow")),
                                                              "volume": o.get("volume", 0), "cmd": o.get("cmd")},
                    "observed": small, "replay_cmd": "bin/check C02 --replay <this file>"})
                ctx.findings.append({"key": "chain:%s:exclude" % o["class"], "what": why, "replay": path})
    # failing inputs on which an address is wrongly probed / wrongly left out first, refusals after them
    ctx.findings.sort(key=lambda f: 0 if (" but is probed" in f["what"] or " is never probed" in f["what"]) else 1)
    if per_class:
        ctx.info.append("failing inputs per class: %s" % json.dumps(per_class))
    if model_ok and chains and ctx.coq_model(["Spec/C01.vo"]):
        from checks import c01, tgtlib
        tgtlib.evaluate(ctx, [o for o in chains if o["nprobes"] <= 4000], c01.case_term, "From SX Require Import Base.Bytes Model.IPNet Model.Targets Spec.C13 Spec.C01.",
                        8 if quick else 32, c01.describe, c01.CODES)
    if model_ok and rows:
        # the long exclusion files are judged by the property on the implementation's observation above (membership of
        # every address of the target, the boundaries of every entry, the real chain); the in-Coq comparison of a file of
        # thousands of lines over a /19../21 costs minutes per case, so they are not evaluated by the model here
        nlong = sum(1 for o in rows if o["kind"] == "excl" and o.get("bytes"))
        if nlong:
            ctx.info.append("%d long exclusion files judged by the property on the observation only (not re-evaluated in Coq)" % nlong)
        rows = [o for o in rows if not (o["kind"] == "excl" and o.get("bytes"))]
        nshards = 16 if quick else 64
        # balance shards by payload size
        rows_sorted = sorted(range(len(rows)), key=lambda i: -len(json.dumps(rows[i])))
        parts = [[] for _ in range(nshards)]
        loads = [0] * nshards
        for i in rows_sorted:
            j = loads.index(min(loads))
            parts[j].append(i)
            loads[j] += len(json.dumps(rows[i])) + 400
        parts = [p for p in parts if p]
        outs = ctx.coq_eval_many([("cases_%d" % i, case_file([rows[j] for j in p])) for i, p in enumerate(parts)])
        for p, out in zip(parts, outs):
            for idx, codes in parse_eval(ctx, out, len(p), None):
                o = rows[p[idx]]
                if len(ctx.broken) >= 40:
                    continue
                ctx.broken.append(("correspondence: %s %s: %s" % (
                    o["kind"], o.get("text") or o.get("ip") or o.get("seed"), "; ".join(CODES.get(c, str(c)) for c in codes)),
                    json.dumps(sample_of(o))[:600]))
            ctx.cov["traces_validated_against_impl"] += len(p)
    return ctx.finish(rule=RULE)


def replay(ctx, path):
    r = json.load(open(path))
    i = r.get("input")
    if not i:
        print(json.dumps(r, indent=1))
        return 1
    if i["kind"] == "chain":
        if not ctx.harness_build("c01"):
            return 1
        arg = "chain:%d" % i["case_seed"] + (":big" if i.get("big") else "") + ":filter"
        if i.get("frames"):
            arg = "frames:%d:%d:%s" % (i["case_seed"], i.get("volume", 2000), i.get("cmd", "udp")) + (":slow" if i.get("slow") else "")
        ctx.harness_run("c01", ["-out", "one.jsonl", "-replay", arg], timeout=600)
        o = ctx.read_jsonl(os.path.join(ctx.work, "one.jsonl"))[0]
        why = judge_chain(o)
        print("replay %s: %s" % (arg, why or "property holds on this input"))
        return 1 if why else 0
    if i["kind"] == "e2e":
        if not ctx.harness_build("c01"):
            return 1
        sx = os.path.join(ctx.work, "sx")
        rc, out = verif.sh(["go", "build", "-o", sx, "."], env=verif.GOENV, cwd=verif.REPO, timeout=900)
        ctx.harness_run("c01", ["-e2e", sx, "-e2eset", "refuse", "-out", "e2e.jsonl", "-seed", i["seed"], "-ne2e", i["index"] + 1], timeout=600)
        o = ctx.read_jsonl(os.path.join(ctx.work, "e2e.jsonl"))[i["index"]]
        why = judge_e2e(o)
        print("replay e2e #%d: %s" % (i["index"], why or "sx %s: %d frame(s) on the wire, exit status %d (property holds on this input)" % (
            " ".join(o["argv"])[:300], o["nframes"], o["rc"])))
        return 1 if why else 0
    if not ctx.harness_build("c02"):
        return 1
    if i["kind"] == "parse":
        arg = "parse:" + i["s"]
    elif i["kind"] == "ips":
        arg = "ips:%s/%s:%d:%d" % (i["ip"], i["mask"], i["seed"], i["limit"])
    else:
        # the stored file through the real parser and trie again; meanings of the lines as stored
        lines = r["observed"]["lines"]
        text = "".join(hb(l["raw"]).decode("latin1") + "\n" for l in lines).encode("latin1")
        base, k = r["observed"]["net_base"], r["observed"]["net_k"]
        if len(text) > 4096:
            # long files go through a file (and through the real generator -> filter chain again)
            tf = os.path.join(ctx.work, "replay-exclude.txt")
            with open(tf, "wb") as f:
                f.write(text)
            text = "@" + tf
        else:
            text = text.hex()
        ctx.harness_run("c02", ["-out", "one.jsonl", "-seed", i.get("seed", 1), "-replay", "excl:%s:%d:%d" % (text, base, k)], timeout=600)
        o = ctx.read_jsonl(os.path.join(ctx.work, "one.jsonl"))[0]
        o["lines"] = lines
        bad = [l for l in lines if l["meaning"] == "bad"]
        why = None
        if bad:
            why = "exclusion file with a refused entry is accepted" if o["impl_ok"] else None
        elif not o["impl_ok"]:
            why = "well-formed exclusion file is refused: %s" % o.get("impl_err")
        elif judge_long_chain(o):
            why = judge_long_chain(o)
        else:
            for j, m in enumerate(hb(o["member"])):
                want = 1 if covered(lines, base + j) else 0
                if m != want:
                    why = "exclusion membership of %s is %d, the file says %d" % (dotted(base + j), m, want)
                    break
        shown = [hb(l["raw"]).decode("latin1") for l in lines]
        if len(shown) > 24:
            shown = shown[:12] + ["... %d more lines ..." % (len(shown) - 24)] + shown[-12:]
        print("replay exclusion file %r on %s/%d: %s" % (shown, dotted(base), k,
                                                          why or "property holds on this input"))
        return 1 if why else 0
    ok, _ = ctx.harness_run("c02", ["-out", "one.jsonl", "-seed", i.get("seed", 1), "-replay", arg], timeout=600)
    o = ctx.read_jsonl(os.path.join(ctx.work, "one.jsonl"))[0]
    if o["kind"] == "parse":
        # judge with the class the string has by its looks
        s = hb(o["s"]).decode("latin1")
        o["class"] = "ipv6" if ":" in s else "replay"
    else:
        o["class"] = "v4-replay" if len(hb(o["mask"])) == 4 else "replay"
    why = spec_on_impl(o)
    print("replay %s: %s" % (arg, why or "property holds on this input"))
    print(json.dumps(sample_of(o)))
    return 1 if why else 0


MANIFEST = {
    "technique": "Coq proof (model of ParseIPNet / ipGenerator / exclusion filter over oracle results of the library "
                 "parsers; byte-mask arithmetic lemmas; C04 for the walk) + differential correspondence",
    "level_text": "Theorems C02_accept_is_ipv4 / C02_non_ipv4_refused / C02_no_crash_no_foreign / C02_excluded_never_probed / "
                  "C02_exclusion_exact hold for all library results, nets, draws and exclusion lists; the executable model is "
                  "compared with the real ParseIPNet on thousands of target strings, with the real ipGenerator (exact "
                  "sequences from seeded math/rand) and with parseExcludeFile + cidranger + the filter stage on whole subnets. "
                  "C02_wire_confined / C02_scan_confined / C02_wire_never_foreign and, for target files, C02_wire_confined_file / "
                  "C02_scan_confined_file (Properties/C02Wire.v) carry confinement "
                  "through the engines: for every command, every worker count and EVERY schedule of every engine run, each frame "
                  "handed to the wire / target handed to Scan lies inside the net and outside the exclusion list.",
    "level_note": "Trusted: Coq kernel + VM, Go's net/netip parsers (oracle inputs, shape checked per case), cidranger "
                  "(modelled as set membership, compared exhaustively per subnet), harness comparison. No axioms.",
    "design_ref": "DESIGN.md section 5 (C02)",
}
